import CatiiProofs.Collapsed
import CatiiProofs.RoundTrip
import CatiiProofs.Counting
/-! `collapsed(precedence, mapping)` on the dense array (C06): every row of the result holds the first listed
value present among the (mapped) cells of that row, else the last listed one.  Core Lean only. -/
namespace Catii.IIdx
open Catii.Kern

theorem getD_set! (a : Array Int) (i j : Nat) (v : Int) (hi : i < a.size) :
    (a.set! i v).getD j 0 = if j = i then v else a.getD j 0 := by
  rw [Array.set!_eq_setIfInBounds]
  simp only [Array.getD_eq_getD_getElem?, Array.getElem?_setIfInBounds]
  by_cases h : i = j
  · subst h; simp [hi]
  · have h' : ¬ j = i := fun e => h e.symm
    simp [h, h']

theorem colSetRows_spec (n : Nat) (a a' : Array Int) (rows : Rows) (v : Int) (hsz : a.size = n)
    (h : colSetRows n a rows v = .ok a') :
    a'.size = n ∧ (∀ r ∈ rows, r < n) ∧ ∀ r, a'.getD r 0 = if r ∈ rows then v else a.getD r 0 := by
  unfold colSetRows at h
  induction rows generalizing a with
  | nil =>
    simp only [List.foldlM_nil, pure, Except.pure] at h; cases h
    exact ⟨hsz, by simp, by simp⟩
  | cons r0 rest ih =>
    simp only [List.foldlM_cons] at h
    by_cases hr : r0 ≥ n
    · simp [hr, bind, Except.bind, throw, throwThe, MonadExceptOf.throw] at h
    · simp only [hr, if_false, bind, Except.bind, pure, Except.pure] at h
      have hsz1 : (a.set! r0 v).size = n := by
        rw [Array.set!_eq_setIfInBounds, Array.size_setIfInBounds]; exact hsz
      obtain ⟨h1, h2, h3⟩ := ih _ hsz1 h
      refine ⟨h1, ?_, ?_⟩
      · intro r hr'
        rcases List.mem_cons.mp hr' with e | e
        · subst e; omega
        · exact h2 r e
      · intro r
        rw [h3 r, getD_set! a r0 r v (by omega)]
        by_cases e1 : r ∈ rest
        · simp [e1]
        · by_cases e2 : r = r0
          · simp [e2]
          · simp [e1, e2]

theorem colDec_spec (n : Nat) (a a' : Array Int) (rows : Rows) (hsz : a.size = n)
    (h : colDec n a rows = .ok a') :
    a'.size = n ∧ (∀ r ∈ rows, r < n) ∧ ∀ r, a'.getD r 0 = a.getD r 0 - (rows.count r : Int) := by
  unfold colDec at h
  induction rows generalizing a with
  | nil =>
    simp only [List.foldlM_nil, pure, Except.pure] at h; cases h
    exact ⟨hsz, by simp, by simp⟩
  | cons r0 rest ih =>
    simp only [List.foldlM_cons] at h
    by_cases hr : r0 ≥ n
    · simp [hr, bind, Except.bind, throw, throwThe, MonadExceptOf.throw] at h
    · simp only [hr, if_false, bind, Except.bind, pure, Except.pure] at h
      have hsz1 : (a.set! r0 (a.getD r0 0 - 1)).size = n := by
        rw [Array.set!_eq_setIfInBounds, Array.size_setIfInBounds]; exact hsz
      obtain ⟨h1, h2, h3⟩ := ih _ hsz1 h
      refine ⟨h1, ?_, ?_⟩
      · intro r hr'
        rcases List.mem_cons.mp hr' with e | e
        · subst e; omega
        · exact h2 r e
      · intro r
        rw [h3 r, getD_set! a r0 r _ (by omega), List.count_cons]
        by_cases e2 : r = r0
        · subst e2; simp; omega
        · have : ¬ r0 = r := fun e => e2 e.symm
          simp [e2, this]

/-- `common_count[rowids] -= 1` over all the row-id lists of one value -/
theorem colDecAll_spec (n : Nat) (a a' : Array Int) (ls : List Rows) (hsz : a.size = n)
    (h : colDecAll n a ls = .ok a') :
    a'.size = n ∧ ∀ r, a'.getD r 0 = a.getD r 0 - (ls.flatten.count r : Int) := by
  unfold colDecAll at h
  induction ls generalizing a with
  | nil =>
    simp only [List.foldlM_nil, pure, Except.pure] at h; cases h
    exact ⟨hsz, by simp⟩
  | cons rows rest ih =>
    rw [List.foldlM_cons] at h
    cases hs : colDec n a rows with
    | error e => simp only [hs, bind, Except.bind] at h; cases h
    | ok a1 =>
      simp only [hs, bind, Except.bind] at h
      obtain ⟨s1, _, g1⟩ := colDec_spec n a a1 rows hsz hs
      obtain ⟨s2, g2⟩ := ih a1 s1 h
      refine ⟨s2, fun r => ?_⟩
      rw [g2 r, g1 r, List.flatten_cons, List.count_append]
      push_cast; omega


/-- keys of the gathered dictionary are pairwise distinct -/
abbrev GKeys (g : List (Int × List Rows)) : Prop := g.Pairwise (fun a b => a.1 ≠ b.1)

theorem ggetOf_nil (v : Int) : ggetOf [] v = [] := rfl

/-- what one step of the gathering loop does to `gathered.get(v, [])` -/
theorem ggetOf_colGather (mp : Int → Int) (nc : Int) (g : List (Int × List Rows)) (e : Key × Rows) (v : Int) :
    ggetOf (colGather mp nc g e) v =
      if (mp (val0 e.1) == v && v != nc) = true then ggetOf g v ++ [e.2] else ggetOf g v := by
  unfold colGather
  simp only
  by_cases h1 : (mp (val0 e.1) == nc) = true
  · rw [if_pos h1]
    have : ¬ ((mp (val0 e.1) == v && v != nc) = true) := by
      intro h
      rw [Bool.and_eq_true_iff] at h
      have a := beq_iff_eq.mp h.1
      have b := beq_iff_eq.mp h1
      have c : v = nc := by rw [← a, b]
      simp [c] at h
    rw [if_neg this]
  · rw [if_neg h1]
    have hne : mp (val0 e.1) ≠ nc := fun e' => h1 (beq_iff_eq.mpr e')
    cases hf : g.find? (fun p => p.1 == mp (val0 e.1)) with
    | some p0 =>
      simp only
      unfold ggetOf
      rw [List.find?_map]
      have hcomp : ((fun p : Int × List Rows => p.1 == v) ∘
          fun p : Int × List Rows => if (p.1 == mp (val0 e.1)) = true then (p.1, p.2 ++ [e.2]) else p)
          = fun p => p.1 == v := by
        funext p; simp only [Function.comp]; split <;> rfl
      rw [hcomp]
      cases hv : g.find? (fun p => p.1 == v) with
      | none =>
        simp only [Option.map_none, Option.getD_none]
        by_cases hc : (mp (val0 e.1) == v && v != nc) = true
        · exfalso
          rw [Bool.and_eq_true_iff] at hc
          have a := beq_iff_eq.mp hc.1
          rw [a] at hf
          rw [hf] at hv; cases hv
        · rw [if_neg hc]
      | some q =>
        simp only [Option.map_some, Option.getD_some]
        have hq := List.find?_some hv
        have hqv : q.1 = v := beq_iff_eq.mp hq
        by_cases hc : (mp (val0 e.1) == v && v != nc) = true
        · rw [if_pos hc]
          rw [Bool.and_eq_true_iff] at hc
          have a := beq_iff_eq.mp hc.1
          have : (q.1 == mp (val0 e.1)) = true := by rw [hqv, a]; exact beq_self_eq_true _
          rw [if_pos this]
        · rw [if_neg hc]
          have : ¬ (q.1 == mp (val0 e.1)) = true := by
            intro h
            apply hc
            have a := beq_iff_eq.mp h
            rw [Bool.and_eq_true_iff]
            refine ⟨beq_iff_eq.mpr (by rw [← a, hqv]), ?_⟩
            simp only [bne_iff_ne, ne_eq]
            intro e'; apply hne; rw [← a, hqv, e']
          rw [if_neg this]
    | none =>
      simp only
      unfold ggetOf
      rw [List.find?_append]
      cases hv : g.find? (fun p => p.1 == v) with
      | some q =>
        simp only [Option.some_or, Option.map_some, Option.getD_some]
        have : ¬ (mp (val0 e.1) == v && v != nc) = true := by
          intro hc
          rw [Bool.and_eq_true_iff] at hc
          have a := beq_iff_eq.mp hc.1
          rw [a] at hf
          rw [hf] at hv; cases hv
        rw [if_neg this]
      | none =>
        simp only [Option.none_or, Option.map_none, Option.getD_none, List.nil_append]
        by_cases hc : (mp (val0 e.1) == v) = true
        · have hcc : (mp (val0 e.1) == v && v != nc) = true := by
            rw [Bool.and_eq_true_iff]
            refine ⟨hc, ?_⟩
            simp only [bne_iff_ne, ne_eq]
            intro e'; apply hne; rw [beq_iff_eq.mp hc, e']
          rw [if_pos hcc]
          simp [hc]
        · have hcc : ¬ (mp (val0 e.1) == v && v != nc) = true := by
            intro h; rw [Bool.and_eq_true_iff] at h; exact hc h.1
          rw [if_neg hcc]
          simp [hc]

/-- after the gathering loop, `gathered.get(v, [])` lists, in entry order, the row-id arrays of the entries whose
(mapped) value is `v` — nothing for the new common value -/
theorem ggetOf_fold (mp : Int → Int) (nc : Int) (es : List (Key × Rows)) (g : List (Int × List Rows)) (v : Int) :
    ggetOf (es.foldl (colGather mp nc) g) v =
      ggetOf g v ++ (es.filter (fun e => mp (val0 e.1) == v && v != nc)).map (·.2) := by
  induction es generalizing g with
  | nil => simp
  | cons e rest ih =>
    rw [List.foldl_cons, ih, ggetOf_colGather, List.filter_cons]
    by_cases hc : (mp (val0 e.1) == v && v != nc) = true
    · rw [if_pos hc, if_pos hc]; simp
    · rw [if_neg hc, if_neg hc]

theorem colGather_keys (mp : Int → Int) (nc : Int) (g : List (Int × List Rows)) (e : Key × Rows)
    (hk : GKeys g) (hn : ∀ p ∈ g, p.1 ≠ nc) :
    GKeys (colGather mp nc g e) ∧ ∀ p ∈ colGather mp nc g e, p.1 ≠ nc := by
  unfold colGather
  simp only
  by_cases h1 : (mp (val0 e.1) == nc) = true
  · rw [if_pos h1]; exact ⟨hk, hn⟩
  · rw [if_neg h1]
    have hne : mp (val0 e.1) ≠ nc := fun e' => h1 (beq_iff_eq.mpr e')
    cases hf : g.find? (fun p => p.1 == mp (val0 e.1)) with
    | some p0 =>
      simp only
      constructor
      · show List.Pairwise _ _
        rw [List.pairwise_map]
        apply hk.imp
        intro a b hab
        split <;> split <;> exact hab
      · intro p hp
        obtain ⟨q, hq, rfl⟩ := List.mem_map.mp hp
        split
        · exact hn q hq
        · exact hn q hq
    | none =>
      simp only
      constructor
      · show List.Pairwise _ _
        rw [List.pairwise_append]
        refine ⟨hk, by simp, ?_⟩
        intro a ha b hb
        rw [List.mem_singleton] at hb
        subst hb
        have := List.find?_eq_none.mp hf a ha
        simpa using this
      · intro p hp
        rcases List.mem_append.mp hp with h | h
        · exact hn p h
        · rw [List.mem_singleton] at h; subst h; exact hne

theorem gather_keys (mp : Int → Int) (nc : Int) (es : List (Key × Rows)) (g : List (Int × List Rows))
    (hk : GKeys g) (hn : ∀ p ∈ g, p.1 ≠ nc) :
    GKeys (es.foldl (colGather mp nc) g) ∧ ∀ p ∈ es.foldl (colGather mp nc) g, p.1 ≠ nc := by
  induction es generalizing g with
  | nil => exact ⟨hk, hn⟩
  | cons e rest ih =>
    rw [List.foldl_cons]
    obtain ⟨a, b⟩ := colGather_keys mp nc g e hk hn
    exact ih _ a b

/-- with distinct keys, an item of the dictionary is what `get` returns for its key -/
theorem ggetOf_of_mem (g : List (Int × List Rows)) (hk : GKeys g) (p : Int × List Rows) (hp : p ∈ g) :
    ggetOf g p.1 = p.2 := by
  unfold ggetOf
  induction g with
  | nil => simp at hp
  | cons q rest ih =>
    rcases List.mem_cons.mp hp with h | h
    · subst h; simp
    · have hne : q.1 ≠ p.1 := (List.pairwise_cons.mp hk).1 p h
      have : ¬ (q.1 == p.1) = true := fun e => hne (beq_iff_eq.mp e)
      rw [List.find?_cons_of_neg (l := rest) (p := fun p_1 : Int × List Rows => p_1.1 == p.1) this]
      exact ih (List.pairwise_cons.mp hk).2 h

/-- a key is present as soon as `get` returns something -/
theorem mem_keys_of_ggetOf (g : List (Int × List Rows)) (v : Int) (h : ggetOf g v ≠ []) : ∃ p ∈ g, p.1 = v := by
  unfold ggetOf at h
  cases hf : g.find? (fun p => p.1 == v) with
  | none => rw [hf] at h; simp at h
  | some p => exact ⟨p, List.mem_of_find?_eq_some hf, beq_iff_eq.mp (List.find?_some (p := fun p : Int × List Rows => p.1 == v) hf)⟩


/-- the higher coordinates of the cells of one row -/
def rowCells (i : IIndex) : List (List Int) := hiCells (i.shape.drop 1)

/-- is the cell `(r, hi)` listed by some entry? -/
def isListed (i : IIndex) (r : Nat) (hi : List Int) : Bool :=
  i.entries.any fun e => e.1.drop 1 == hi && e.2.contains r

theorem count_sorted (rows : Rows) (hs : SSorted rows) (r : Nat) :
    rows.count r = if rows.contains r = true then 1 else 0 := by
  have hn : rows.Nodup := hs.imp (fun h => Nat.ne_of_lt h)
  rw [List.Nodup.count hn]
  simp only [List.contains_iff_mem]

theorem count_lists (es : List (Key × Rows)) (hs : ∀ e ∈ es, SSorted e.2) (r : Nat) :
    (es.map (·.2)).flatten.count r = es.countP (fun e => e.2.contains r) := by
  induction es with
  | nil => rfl
  | cons e rest ih =>
    rw [List.map_cons, List.flatten_cons, List.count_append, List.countP_cons,
      ih (fun e' he' => hs e' (List.mem_cons_of_mem _ he')), count_sorted e.2 (hs e List.mem_cons_self)]
    omega

theorem denseAt_not_listed (i : IIndex) (r : Nat) (hi : List Int) (h : isListed i r hi = false) :
    denseAt i r hi = i.common := by
  apply denseAt_of_not_mem
  intro e he hhi hr
  unfold isListed at h
  have := List.any_eq_false.mp h e he
  simp [hhi, hr] at this

/-- the entries that hold row `r` are, cell for cell, the listed cells of that row -/
theorem listed_perm (i : IIndex) (h : WF i) (r : Nat) :
    ((i.entries.filter (fun e => e.2.contains r)).map (fun e => e.1.drop 1)).Perm
      ((rowCells i).filter (isListed i r)) := by
  apply (List.perm_ext_iff_of_nodup ?_ ?_).mpr
  · intro hi
    rw [List.mem_map, List.mem_filter]
    constructor
    · rintro ⟨e, he, rfl⟩
      rw [List.mem_filter] at he
      refine ⟨h.hiRange e he.1, ?_⟩
      unfold isListed
      rw [List.any_eq_true]
      exact ⟨e, he.1, by simp [List.contains_iff_mem.mp he.2]⟩
    · rintro ⟨_, hl⟩
      unfold isListed at hl
      rw [List.any_eq_true] at hl
      obtain ⟨e, he, hc⟩ := hl
      rw [Bool.and_eq_true_iff] at hc
      exact ⟨e, List.mem_filter.mpr ⟨he, hc.2⟩, beq_iff_eq.mp hc.1⟩
  · show List.Pairwise _ _
    rw [List.pairwise_map]
    apply List.Pairwise.imp_of_mem _ (h.keys.filter _)
    intro a b ha hb hab heq
    rw [List.mem_filter] at ha hb
    have hv := h.exclusive a ha.1 b hb.1 heq r (List.contains_iff_mem.mp ha.2) (List.contains_iff_mem.mp hb.2)
    apply hab
    rw [key_eq a.1 (by rw [h.arity a ha.1]; exact h.ndimPos), key_eq b.1 (by rw [h.arity b hb.1]; exact h.ndimPos),
      hv, heq]
  · exact (hiCells_nodup _).filter _

/-- **counting one row**: the row-id lists gathered for a (mapped) value `v` other than the new common value hold
row `r` once per cell of that row whose mapped value is `v` -/
theorem gathered_count (i : IIndex) (h : WF i) (mp : Int → Int) (v : Int) (hv : v ≠ mp i.common) (r : Nat) :
    ((i.entries.filter (fun e => mp (val0 e.1) == v && v != mp i.common)).map (·.2)).flatten.count r =
      (rowCells i).countP (fun hi => mp (denseAt i r hi) == v) := by
  rw [count_lists _ (fun e he => h.sorted e (List.mem_filter.mp he).1), List.countP_filter]
  have h1 : i.entries.countP (fun a => a.2.contains r && (mp (val0 a.1) == v && v != mp i.common)) =
      (i.entries.filter (fun e => e.2.contains r)).countP (fun e => mp (denseAt i r (e.1.drop 1)) == v) := by
    rw [List.countP_filter]
    apply List.countP_congr
    intro e he
    have hvb : (v != mp i.common) = true := by simp [hv]
    by_cases hc : e.2.contains r = true
    · have hm : r ∈ e.2 := List.contains_iff_mem.mp hc
      rw [denseAt_of_mem i h e he r _ rfl hm]
      simp [hm, hv]
    · have hm : r ∉ e.2 := fun hm => hc (List.contains_iff_mem.mpr hm)
      simp [hm]
  rw [h1]
  have h2 := List.countP_map (p := fun hi => mp (denseAt i r hi) == v) (f := fun e : Key × Rows => e.1.drop 1)
    (l := i.entries.filter (fun e => e.2.contains r))
  have h2' : (i.entries.filter (fun e => e.2.contains r)).countP (fun e => mp (denseAt i r (e.1.drop 1)) == v) =
      ((i.entries.filter (fun e => e.2.contains r)).map (fun e => e.1.drop 1)).countP
        (fun hi => mp (denseAt i r hi) == v) := by
    rw [h2]; rfl
  rw [h2', (listed_perm i h r).countP_eq, List.countP_filter]
  apply List.countP_congr
  intro hi _
  by_cases hl : isListed i r hi = true
  · simp [hl]
  · have hl' : isListed i r hi = false := by simpa using hl
    rw [denseAt_not_listed i r hi hl']
    have : ¬ (mp i.common == v) = true := fun e => hv (beq_iff_eq.mp e).symm
    simp [hl', this]



/-- number of cells of row `r` whose (mapped) value satisfies `q` -/
def cnt (i : IIndex) (mp : Int → Int) (r : Nat) (q : Int → Bool) : Nat :=
  (rowCells i).countP fun hi => q (mp (denseAt i r hi))

theorem cnt_congr (i : IIndex) (mp : Int → Int) (r : Nat) (p q : Int → Bool) (h : ∀ x, p x = q x) :
    cnt i mp r p = cnt i mp r q := by
  unfold cnt; congr 1; funext hi; exact h _

theorem countP_add_disjoint {α} (l : List α) (p q : α → Bool) (h : ∀ a, ¬ (p a = true ∧ q a = true)) :
    l.countP p + l.countP q = l.countP (fun a => p a || q a) := by
  induction l with
  | nil => rfl
  | cons a rest ih =>
    simp only [List.countP_cons]
    have := h a
    cases hp : p a <;> cases hq : q a <;> simp_all <;> omega

theorem cnt_add_disjoint (i : IIndex) (mp : Int → Int) (r : Nat) (p q : Int → Bool)
    (h : ∀ x, ¬ (p x = true ∧ q x = true)) :
    cnt i mp r p + cnt i mp r q = cnt i mp r (fun x => p x || q x) := by
  unfold cnt
  exact countP_add_disjoint _ _ _ (fun hi => h _)

theorem cnt_le (i : IIndex) (mp : Int → Int) (r : Nat) (q : Int → Bool) : cnt i mp r q ≤ (rowCells i).length :=
  List.countP_le_length

/-- summing the per-value counts over distinct values counts the cells whose value is one of them -/
theorem cnt_sum_keys (i : IIndex) (mp : Int → Int) (r : Nat) (ks : List Int) (hk : ks.Nodup) :
    (ks.map (fun k => cnt i mp r (fun x => x == k))).sum = cnt i mp r (fun x => ks.contains x) := by
  induction ks with
  | nil => simp [cnt]
  | cons k rest ih =>
    rw [List.map_cons, List.sum_cons, ih (List.nodup_cons.mp hk).2, cnt_add_disjoint]
    · apply cnt_congr
      intro x
      simp only [List.contains_cons]
    · intro x ⟨h1, h2⟩
      have : x = k := beq_iff_eq.mp h1
      subst this
      exact (List.nodup_cons.mp hk).1 (List.contains_iff_mem.mp h2)

/-- the gathered row-id lists of any value, counted for one row -/
theorem gathered_count' (i : IIndex) (h : WF i) (mp : Int → Int) (v : Int) (r : Nat) :
    (ggetOf (i.entries.foldl (colGather mp (mp i.common)) []) v).flatten.count r =
      cnt i mp r (fun x => x == v && v != mp i.common) := by
  rw [ggetOf_fold, ggetOf_nil, List.nil_append]
  by_cases hv : v = mp i.common
  · have : ∀ x : Int, (x == v && v != mp i.common) = false := by intro x; simp [hv]
    rw [cnt_congr _ _ _ _ (fun _ => false) this]
    have hf : (i.entries.filter (fun e => mp (val0 e.1) == v && v != mp i.common)) = [] := by
      apply List.filter_eq_nil_iff.mpr
      intro e _; simp [hv]
    rw [hf]; simp [cnt]
  · rw [gathered_count i h mp v hv r]
    unfold cnt
    apply List.countP_congr
    intro hi _
    simp [hv]

/-- a (mapped) cell value other than the new common value is a key of the gathered dictionary -/
theorem gathered_has_key (i : IIndex) (h : WF i) (mp : Int → Int) (r : Nat) (hi : List Int)
    (hne : mp (denseAt i r hi) ≠ mp i.common) :
    ∃ p ∈ i.entries.foldl (colGather mp (mp i.common)) [], p.1 = mp (denseAt i r hi) := by
  apply mem_keys_of_ggetOf
  rw [ggetOf_fold, ggetOf_nil, List.nil_append]
  have hl : isListed i r hi = true := by
    by_cases hl : isListed i r hi = true
    · exact hl
    · exfalso
      have hl' : isListed i r hi = false := by simpa using hl
      rw [denseAt_not_listed i r hi hl'] at hne
      exact hne rfl
  unfold isListed at hl
  rw [List.any_eq_true] at hl
  obtain ⟨e, he, hc⟩ := hl
  rw [Bool.and_eq_true_iff] at hc
  have hd := denseAt_of_mem i h e he r hi (beq_iff_eq.mp hc.1) (List.contains_iff_mem.mp hc.2)
  intro hnil
  have : e ∈ i.entries.filter (fun e => mp (val0 e.1) == mp (denseAt i r hi) && mp (denseAt i r hi) != mp i.common) := by
    rw [List.mem_filter]
    refine ⟨he, ?_⟩
    rw [hd]
    rw [hd] at hne
    simp [hne]
  have hm := List.mem_map_of_mem (f := fun e : Key × Rows => e.2) this
  rw [hnil] at hm
  simp at hm


theorem cnt_congr_cells (i : IIndex) (mp : Int → Int) (r : Nat) (p q : Int → Bool)
    (h : ∀ hi ∈ rowCells i, p (mp (denseAt i r hi)) = q (mp (denseAt i r hi))) :
    cnt i mp r p = cnt i mp r q := by
  unfold cnt
  apply List.countP_congr
  intro hi hhi
  rw [h hi hhi]

/-- the cells counted off so far: not the new common value, and either unmentioned by `precedence`, or the last
listed value (when it is not also listed earlier), or one of the values `S` already written -/
def counted (nc : Int) (prec head : List Int) (default : Int) (S : List Int) (x : Int) : Bool :=
  x != nc && (!prec.contains x || (x == default && !head.contains default) || S.contains x)

def unlSum (prec : List Int) (G : List (Int × List Rows)) (r : Nat) : Nat :=
  ((G.filter (fun p => !prec.contains p.1)).map (fun p => p.2.flatten.count r)).sum

theorem unlisted_fold (n : Nat) (prec : List Int) (G : List (Int × List Rows)) (cc cc' : Array Int)
    (hsz : cc.size = n) (h : G.foldlM (colUnlisted n prec) cc = .ok cc') :
    cc'.size = n ∧ ∀ r, cc'.getD r 0 = cc.getD r 0 - (unlSum prec G r : Int) := by
  induction G generalizing cc with
  | nil =>
    simp only [List.foldlM_nil, pure, Except.pure] at h; cases h
    exact ⟨hsz, by simp [unlSum]⟩
  | cons p rest ih =>
    rw [List.foldlM_cons] at h
    cases hs : colUnlisted n prec cc p with
    | error e => simp only [hs, bind, Except.bind] at h; cases h
    | ok cc1 =>
      simp only [hs, bind, Except.bind] at h
      unfold colUnlisted at hs
      by_cases hc : prec.contains p.1 = true
      · rw [if_pos hc] at hs
        simp only [pure, Except.pure, Except.ok.injEq] at hs
        subst hs
        obtain ⟨s2, g2⟩ := ih cc hsz h
        refine ⟨s2, fun r => ?_⟩
        rw [g2 r]
        unfold unlSum
        rw [List.filter_cons_of_neg (by simpa using hc)]
      · rw [if_neg hc] at hs
        obtain ⟨s1, g1⟩ := colDecAll_spec n cc cc1 p.2 hsz hs
        obtain ⟨s2, g2⟩ := ih cc1 s1 h
        refine ⟨s2, fun r => ?_⟩
        rw [g2 r, g1 r]
        unfold unlSum
        rw [List.filter_cons_of_pos (by simpa using hc), List.map_cons, List.sum_cons]
        push_cast; omega

/-- the unmentioned part of the count, over the real gathered dictionary -/
theorem unlSum_gathered (i : IIndex) (h : WF i) (mp : Int → Int) (prec : List Int) (r : Nat) :
    unlSum prec (i.entries.foldl (colGather mp (mp i.common)) []) r =
      cnt i mp r (fun x => x != mp i.common && !prec.contains x) := by
  obtain ⟨hk, hn⟩ := gather_keys mp (mp i.common) i.entries [] List.Pairwise.nil (by simp)
  generalize hG : i.entries.foldl (colGather mp (mp i.common)) [] = G at hk hn
  unfold unlSum
  have h1 : (G.filter (fun p => !prec.contains p.1)).map (fun p => p.2.flatten.count r) =
      ((G.filter (fun p => !prec.contains p.1)).map (·.1)).map (fun k => cnt i mp r (fun x => x == k)) := by
    rw [List.map_map]
    apply List.map_congr_left
    intro p hp
    have hpG := (List.mem_filter.mp hp).1
    simp only [Function.comp]
    rw [← ggetOf_of_mem G hk p hpG, ← hG, gathered_count' i h mp p.1 r]
    apply cnt_congr
    intro x
    have : (p.1 != mp i.common) = true := by simp [hn p hpG]
    rw [this, Bool.and_true]
  rw [h1, cnt_sum_keys]
  · apply cnt_congr_cells
    intro hi _
    generalize hx : mp (denseAt i r hi) = x
    by_cases hxn : x = mp i.common
    · have : ¬ ((G.filter (fun p => !prec.contains p.1)).map (·.1)).contains x = true := by
        intro hc
        obtain ⟨p, hp, hpx⟩ := List.mem_map.mp (List.contains_iff_mem.mp hc)
        exact hn p (List.mem_filter.mp hp).1 (hpx.trans hxn)
      rw [(Bool.not_eq_true _).mp this]
      simp [hxn]
    · obtain ⟨p, hp, hpx⟩ := gathered_has_key i h mp r hi (by rw [hx]; exact hxn)
      rw [hG] at hp
      rw [hx] at hpx
      by_cases hpc : prec.contains x = true
      · have : ¬ ((G.filter (fun p => !prec.contains p.1)).map (·.1)).contains x = true := by
          intro hc
          obtain ⟨q, hq, hqx⟩ := List.mem_map.mp (List.contains_iff_mem.mp hc)
          have := (List.mem_filter.mp hq).2
          rw [hqx, hpc] at this
          simp at this
        rw [(Bool.not_eq_true _).mp this]
        have hm : x ∈ prec := List.contains_iff_mem.mp hpc
        simp [hm]
      · have : ((G.filter (fun p => !prec.contains p.1)).map (·.1)).contains x = true := by
          apply List.contains_iff_mem.mpr
          apply List.mem_map.mpr
          refine ⟨p, List.mem_filter.mpr ⟨hp, ?_⟩, hpx⟩
          rw [hpx]; simpa using hpc
        rw [this]
        have hm : x ∉ prec := fun hm => hpc (List.contains_iff_mem.mpr hm)
        simp [hxn, hm]
  · show List.Pairwise _ _
    rw [List.pairwise_map]
    exact (hk.filter _).imp (fun h => h)



theorem getD_replicate (n : Nat) (v : Int) (r : Nat) (hr : r < n) : (Array.replicate n v).getD r 0 = v := by
  simp [Array.getD_eq_getD_getElem?, hr]

/-- `common_count` before the precedence loop: the cells of the row, less those already known not to be common -/
theorem colCounts_spec (i : IIndex) (h : WF i) (mp : Int → Int) (n m : Nat) (prec head : List Int) (default : Int)
    (hd : prec.contains default = true) (cc : Array Int)
    (hc : colCounts n m true (i.entries.foldl (colGather mp (mp i.common)) [])
      (ggetOf (i.entries.foldl (colGather mp (mp i.common)) [])) prec head default = .ok cc) :
    cc.size = n ∧ ∀ r < n,
      cc.getD r 0 = (m : Int) - (cnt i mp r (counted (mp i.common) prec head default []) : Int) := by
  unfold colCounts at hc
  simp only [if_true, bind, Except.bind] at hc
  by_cases hhd : head.contains default = true
  · rw [if_pos hhd] at hc
    simp only [pure, Except.pure] at hc
    obtain ⟨s, g⟩ := unlisted_fold n prec _ _ cc (by simp) hc
    refine ⟨s, fun r hr => ?_⟩
    rw [g r, getD_replicate n _ r hr, unlSum_gathered i h mp prec r]
    congr 2
    apply cnt_congr
    intro x
    have hm1 : default ∈ head := List.contains_iff_mem.mp hhd
    simp [counted, hm1]
  · rw [if_neg hhd] at hc
    cases h1 : colDecAll n (Array.replicate n (m : Int)) (ggetOf (i.entries.foldl (colGather mp (mp i.common)) []) default) with
    | error e => rw [h1] at hc; cases hc
    | ok cc1 =>
      rw [h1] at hc
      simp only at hc
      obtain ⟨s1, g1⟩ := colDecAll_spec n _ cc1 _ (by simp) h1
      obtain ⟨s, g⟩ := unlisted_fold n prec _ cc1 cc s1 hc
      refine ⟨s, fun r hr => ?_⟩
      rw [g r, g1 r, getD_replicate n _ r hr, unlSum_gathered i h mp prec r, gathered_count' i h mp default r]
      have hsum := cnt_add_disjoint i mp r (fun x => x == default && default != mp i.common)
        (fun x => x != mp i.common && !prec.contains x) (by
          intro x ⟨h1, h2⟩
          rw [Bool.and_eq_true_iff] at h1 h2
          have : x = default := beq_iff_eq.mp h1.1
          subst this
          rw [hd] at h2
          simp at h2)
      have hcg : cnt i mp r (fun x => (x == default && default != mp i.common) || (x != mp i.common && !prec.contains x)) =
          cnt i mp r (counted (mp i.common) prec head default []) := by
        apply cnt_congr
        intro x
        have hhd' : head.contains default = false := by simpa using hhd
        unfold counted
        rw [hhd']
        by_cases hx : x = default
        · subst hx
          have hdm : x ∈ prec := List.contains_iff_mem.mp hd
          simp [hdm]
        · have : (x == default) = false := by simpa using hx
          simp [this]
      rw [← hcg, ← hsum]
      push_cast; omega



theorem colInner_spec (n : Nat) (coord : Int) (st st' : Array Int × Array Int × Bool) (rows : Rows)
    (h1 : st.1.size = n) (h2 : st.2.1.size = n) (h : colInner n coord st rows = .ok st') :
    st'.1.size = n ∧ st'.2.1.size = n ∧ st'.2.2 = st.2.2 ∧
    (∀ r, st'.1.getD r 0 = if r ∈ rows then coord else st.1.getD r 0) ∧
    (∀ r, st'.2.1.getD r 0 = if st.2.2 = true then st.2.1.getD r 0 else st.2.1.getD r 0 - (rows.count r : Int)) := by
  unfold colInner at h
  simp only [bind, Except.bind] at h
  cases hs : colSetRows n st.1 rows coord with
  | error e => rw [hs] at h; cases h
  | ok out' =>
    rw [hs] at h
    simp only at h
    obtain ⟨a1, _, a3⟩ := colSetRows_spec n st.1 out' rows coord h1 hs
    by_cases hw : st.2.2 = true
    · simp only [hw, Bool.not_true, Bool.false_eq_true, if_false, pure, Except.pure, Except.ok.injEq] at h
      subst h
      exact ⟨a1, h2, hw.symm ▸ rfl, a3, fun r => by simp [hw]⟩
    · have hw' : st.2.2 = false := by simpa using hw
      simp only [hw', Bool.not_false, if_true] at h
      cases hd : colDec n st.2.1 rows with
      | error e => rw [hd] at h; cases h
      | ok cc' =>
        rw [hd] at h
        simp only [pure, Except.pure, Except.ok.injEq] at h
        subst h
        obtain ⟨b1, _, b3⟩ := colDec_spec n st.2.1 cc' rows h2 hd
        exact ⟨a1, b1, hw'.symm ▸ rfl, a3, fun r => by simp [hw', b3 r]⟩

theorem colInner_fold (n : Nat) (coord : Int) (ls : List Rows) (st st' : Array Int × Array Int × Bool)
    (h1 : st.1.size = n) (h2 : st.2.1.size = n) (h : ls.foldlM (colInner n coord) st = .ok st') :
    st'.1.size = n ∧ st'.2.1.size = n ∧ st'.2.2 = st.2.2 ∧
    (∀ r, st'.1.getD r 0 = if r ∈ ls.flatten then coord else st.1.getD r 0) ∧
    (∀ r, st'.2.1.getD r 0 =
      if st.2.2 = true then st.2.1.getD r 0 else st.2.1.getD r 0 - (ls.flatten.count r : Int)) := by
  induction ls generalizing st with
  | nil =>
    simp only [List.foldlM_nil, pure, Except.pure] at h; cases h
    exact ⟨h1, h2, rfl, by simp, by simp⟩
  | cons rows rest ih =>
    rw [List.foldlM_cons] at h
    cases hs : colInner n coord st rows with
    | error e => simp only [hs, bind, Except.bind] at h; cases h
    | ok st1 =>
      simp only [hs, bind, Except.bind] at h
      obtain ⟨a1, a2, a3, a4, a5⟩ := colInner_spec n coord st st1 rows h1 h2 hs
      obtain ⟨b1, b2, b3, b4, b5⟩ := ih st1 a1 a2 h
      refine ⟨b1, b2, b3.trans a3, fun r => ?_, fun r => ?_⟩
      · rw [b4 r, a4 r, List.flatten_cons]
        by_cases e1 : r ∈ rest.flatten
        · simp [e1]
        · by_cases e2 : r ∈ rows <;> simp [e1, e2]
      · rw [b5 r, a5 r, a3, List.flatten_cons, List.count_append]
        by_cases hw : st.2.2 = true
        · simp [hw]
        · simp only [hw, if_false]; push_cast; omega

/-- `output[common_count != 0] = coord` -/
theorem commonWrite_spec (coord : Int) (cc : Array Int) (l : List Nat) (out : Array Int) (hl : ∀ r ∈ l, r < out.size) :
    (l.foldl (fun (o : Array Int) r => if cc.getD r 0 != 0 then o.set! r coord else o) out).size = out.size ∧
    ∀ r, (l.foldl (fun (o : Array Int) r => if cc.getD r 0 != 0 then o.set! r coord else o) out).getD r 0 =
      if r ∈ l ∧ cc.getD r 0 ≠ 0 then coord else out.getD r 0 := by
  induction l generalizing out with
  | nil => simp
  | cons r0 rest ih =>
    simp only [List.foldl_cons]
    have hr0 : r0 < out.size := hl r0 List.mem_cons_self
    by_cases hc : (cc.getD r0 0 != 0) = true
    · rw [if_pos hc]
      have hsz : (out.set! r0 coord).size = out.size := by
        rw [Array.set!_eq_setIfInBounds, Array.size_setIfInBounds]
      obtain ⟨s, g⟩ := ih (out.set! r0 coord) (fun r hr => by rw [hsz]; exact hl r (List.mem_cons_of_mem _ hr))
      refine ⟨s.trans hsz, fun r => ?_⟩
      rw [g r, getD_set! out r0 r coord hr0]
      have hc' : cc.getD r0 0 ≠ 0 := by simpa using hc
      by_cases e1 : r = r0
      · subst e1
        rw [if_pos rfl, if_pos (⟨List.mem_cons_self, hc'⟩ : r ∈ r :: rest ∧ cc.getD r 0 ≠ 0)]
        split <;> rfl
      · by_cases e2 : r ∈ rest ∧ cc.getD r 0 ≠ 0
        · rw [if_pos e2, if_pos (⟨List.mem_cons_of_mem _ e2.1, e2.2⟩ : r ∈ r0 :: rest ∧ cc.getD r 0 ≠ 0)]
        · have : ¬ (r ∈ r0 :: rest ∧ cc.getD r 0 ≠ 0) := by
            intro ⟨a, b⟩
            rcases List.mem_cons.mp a with a | a
            · exact e1 a
            · exact e2 ⟨a, b⟩
          rw [if_neg e2, if_neg e1, if_neg this]
    · rw [if_neg hc]
      obtain ⟨s, g⟩ := ih out (fun r hr => hl r (List.mem_cons_of_mem _ hr))
      refine ⟨s, fun r => ?_⟩
      rw [g r]
      have hc' : cc.getD r0 0 = 0 := by simpa using hc
      by_cases e1 : r = r0
      · subst e1
        have : ¬ (r ∈ rest ∧ cc.getD r 0 ≠ 0) := fun ⟨_, b⟩ => b hc'
        have t2 : ¬ (r ∈ r :: rest ∧ cc.getD r 0 ≠ 0) := fun ⟨_, b⟩ => b hc'
        rw [if_neg this, if_neg t2]
      · have : (r ∈ r0 :: rest ∧ cc.getD r 0 ≠ 0) ↔ (r ∈ rest ∧ cc.getD r 0 ≠ 0) := by
          rw [List.mem_cons]
          constructor
          · rintro ⟨a | a, b⟩
            · exact absurd a e1
            · exact ⟨a, b⟩
          · rintro ⟨a, b⟩; exact ⟨Or.inr a, b⟩
        simp only [this]



/-- does some cell of row `r` hold (after mapping) the value `p`? -/
def rowHas (i : IIndex) (mp : Int → Int) (r : Nat) (p : Int) : Bool :=
  (rowCells i).any fun hi => mp (denseAt i r hi) == p

theorem rowHas_iff_cnt (i : IIndex) (mp : Int → Int) (r : Nat) (p : Int) :
    rowHas i mp r p = true ↔ 0 < cnt i mp r (fun x => x == p) := by
  unfold rowHas cnt
  rw [List.countP_pos_iff, List.any_eq_true]

/-- the rows gathered for a value other than the new common one are the rows that have it -/
theorem mem_gathered_iff (i : IIndex) (h : WF i) (mp : Int → Int) (c : Int) (hc : c ≠ mp i.common) (r : Nat) :
    r ∈ (ggetOf (i.entries.foldl (colGather mp (mp i.common)) []) c).flatten ↔ rowHas i mp r c = true := by
  rw [← List.count_pos_iff, gathered_count' i h mp c r, rowHas_iff_cnt]
  have : cnt i mp r (fun x => x == c && c != mp i.common) = cnt i mp r (fun x => x == c) := by
    apply cnt_congr; intro x; simp [hc]
  rw [this]

/-- the invariant of the precedence loop: `P` still to be written (higher precedence), `S` already written -/
structure ColInv (i : IIndex) (mp : Int → Int) (n m : Nat) (prec head : List Int) (default : Int)
    (P S : List Int) (st : Array Int × Array Int × Bool) : Prop where
  osz : st.1.size = n
  csz : st.2.1.size = n
  out : ∀ r < n, (∀ p ∈ P, rowHas i mp r p = false) →
    st.1.getD r 0 = (S.find? (rowHas i mp r)).getD default
  cnt : st.2.2 = false → ∀ r < n,
    st.2.1.getD r 0 = (m : Int) - (cnt i mp r (counted (mp i.common) prec head default S) : Int)
  wr : st.2.2 = true → mp i.common ∉ P

/-- what the lists `precedence`, `head` and the value `default` have to do with each other -/
structure PrecOK (prec head : List Int) (default : Int) : Prop where
  nodup : head.Nodup
  sub : ∀ c ∈ head, prec.contains c = true
  last : prec.contains default = true
  cover : ∀ x, prec.contains x = true → x ∈ head ∨ x = default

theorem counted_cons (nc : Int) (prec head : List Int) (default : Int) (S : List Int) (c : Int) (hc : c ≠ nc) (x : Int) :
    counted nc prec head default (c :: S) x = (counted nc prec head default S x || (x == c)) := by
  unfold counted
  simp only [List.contains_cons]
  by_cases hx : x = c
  · subst hx
    have : (x != nc) = true := by simp [hc]
    simp [this]
  · have : (x == c) = false := by simpa using hx
    simp [this]

theorem colStep_inv (i : IIndex) (h : WF i) (mp : Int → Int) (n m : Nat) (dt : DT) (prec head : List Int)
    (default : Int) (hm : (rowCells i).length = m) (hp : PrecOK prec head default)
    (P S : List Int) (c : Int) (hhead : head = P ++ c :: S)
    (st st' : Array Int × Array Int × Bool)
    (inv : ColInv i mp n m prec head default (P ++ [c]) S st)
    (hs : colStep n dt (mp i.common) (ggetOf (i.entries.foldl (colGather mp (mp i.common)) [])) st c = .ok st') :
    ColInv i mp n m prec head default P (c :: S) st' := by
  have hnd := hp.nodup
  rw [hhead] at hnd
  have hcS : c ∉ S := (List.nodup_cons.mp (List.nodup_append.mp hnd).2.1).1
  have hcP : c ∉ P := fun hc => (List.nodup_append.mp hnd).2.2 c hc c List.mem_cons_self rfl
  unfold colStep at hs
  by_cases hcn : (c == mp i.common) = true
  · -- the common value: written wherever a cell may still be common
    have hcn' : c = mp i.common := beq_iff_eq.mp hcn
    rw [if_pos hcn] at hs
    simp only [pure, Except.pure, Except.ok.injEq] at hs
    have hw : st.2.2 = false := by
      by_cases hw : st.2.2 = true
      · exact absurd (List.mem_append_right P (List.mem_singleton.mpr hcn'.symm)) (inv.wr hw)
      · simpa using hw
    obtain ⟨s1, g1⟩ := commonWrite_spec c st.2.1 (List.range n) st.1
      (fun r hr => by rw [inv.osz]; exact List.mem_range.mp hr)
    subst hs
    refine ⟨s1.trans inv.osz, inv.csz, fun r hr hP => ?_, fun hf => by simp at hf, fun _ => ?_⟩
    · show (List.foldl _ st.1 (List.range n)).getD r 0 = _
      rw [g1 r, List.find?_cons]
      have hcc := inv.cnt hw r hr
      by_cases hh : rowHas i mp r c = true
      · -- a cell holds the common value: it has not been counted off
        rw [hh]
        have hlt : cnt i mp r (counted (mp i.common) prec head default S) < m := by
          rw [← hm]
          apply Nat.lt_of_le_of_ne (cnt_le _ _ _ _)
          intro heq
          unfold cnt at heq
          rw [List.countP_eq_length] at heq
          unfold rowHas at hh
          rw [List.any_eq_true] at hh
          obtain ⟨hi, hhi, hv⟩ := hh
          have := heq hi hhi
          have hv' : mp (denseAt i r hi) = mp i.common := (beq_iff_eq.mp hv).trans hcn'
          unfold counted at this
          rw [hv'] at this
          simp at this
        have hne : st.2.1.getD r 0 ≠ 0 := by rw [hcc]; omega
        rw [if_pos ⟨List.mem_range.mpr hr, hne⟩]
        rfl
      · -- no cell holds it, none holds a value of higher precedence: every cell has been counted off
        have hh' : rowHas i mp r c = false := by simpa using hh
        rw [hh']
        have hall : cnt i mp r (counted (mp i.common) prec head default S) = m := by
          rw [← hm]
          unfold cnt
          rw [List.countP_eq_length]
          intro hi hhi
          generalize hx : mp (denseAt i r hi) = x
          have hxr : rowHas i mp r x = true := by
            unfold rowHas; rw [List.any_eq_true]; exact ⟨hi, hhi, by rw [hx]; exact beq_self_eq_true _⟩
          have hxn : x ≠ mp i.common := by
            intro e; rw [e, ← hcn'] at hxr; rw [hxr] at hh'; cases hh'
          unfold counted
          have h1 : (x != mp i.common) = true := by simp [hxn]
          rw [h1, Bool.true_and]
          by_cases hpc : prec.contains x = true
          · rcases hp.cover x hpc with hin | hdef
            · rw [hhead] at hin
              rcases List.mem_append.mp hin with hin | hin
              · rw [hP x hin] at hxr; cases hxr
              · rcases List.mem_cons.mp hin with hin | hin
                · exact absurd (hin.trans hcn') hxn
                · have : S.contains x = true := List.contains_iff_mem.mpr hin
                  rw [this]; simp
            · by_cases hdh : head.contains default = true
              · have hin : x ∈ head := by rw [hdef]; exact List.contains_iff_mem.mp hdh
                rw [hhead] at hin
                rcases List.mem_append.mp hin with hin | hin
                · rw [hP x hin] at hxr; cases hxr
                · rcases List.mem_cons.mp hin with hin | hin
                  · exact absurd (hin.trans hcn') hxn
                  · have : S.contains x = true := List.contains_iff_mem.mpr hin
                    rw [this]; simp
              · have hdh' : head.contains default = false := by simpa using hdh
                rw [hdh', hdef]; simp
          · have : prec.contains x = false := by simpa using hpc
            rw [this]; simp
        have hz : ¬ (r ∈ List.range n ∧ st.2.1.getD r 0 ≠ 0) := by
          intro ⟨_, hne⟩; apply hne; rw [hcc, hall]; omega
        rw [if_neg hz]
        apply inv.out r hr
        intro p hp'
        rcases List.mem_append.mp hp' with hp' | hp'
        · exact hP p hp'
        · rw [List.mem_singleton.mp hp']; exact hh'
    · intro hin; exact hcP (hcn' ▸ hin)
  · -- any other value: written over the rows that have it, and counted off until the common value is written
    have hcn' : c ≠ mp i.common := fun e => hcn (beq_iff_eq.mpr e)
    rw [if_neg hcn] at hs
    by_cases hdt : (!dt.contains c) = true
    · rw [if_pos hdt] at hs; cases hs
    · rw [if_neg hdt] at hs
      obtain ⟨b1, b2, b3, b4, b5⟩ := colInner_fold n c _ st st' inv.osz inv.csz hs
      refine ⟨b1, b2, fun r hr hP => ?_, fun hf r hr => ?_, fun ht => ?_⟩
      · rw [b4 r, List.find?_cons]
        by_cases hh : rowHas i mp r c = true
        · rw [if_pos ((mem_gathered_iff i h mp c hcn' r).mpr hh), hh]; rfl
        · have hh' : rowHas i mp r c = false := by simpa using hh
          rw [if_neg (fun hm' => hh ((mem_gathered_iff i h mp c hcn' r).mp hm')), hh']
          apply inv.out r hr
          intro p hp'
          rcases List.mem_append.mp hp' with hp' | hp'
          · exact hP p hp'
          · rw [List.mem_singleton.mp hp']; exact hh'
      · have hw : st.2.2 = false := by rw [← b3]; exact hf
        rw [b5 r, hw]
        simp only [Bool.false_eq_true, if_false]
        rw [inv.cnt hw r hr, gathered_count' i h mp c r]
        have hadd := cnt_add_disjoint i mp r (counted (mp i.common) prec head default S)
          (fun x => x == c && c != mp i.common) (by
            intro x ⟨h1, h2⟩
            rw [Bool.and_eq_true_iff] at h2
            have hxc : x = c := beq_iff_eq.mp h2.1
            subst hxc
            unfold counted at h1
            have hpc : prec.contains x = true := hp.sub x (by rw [hhead]; simp)
            have hS : S.contains x = false := by
              cases hS : S.contains x
              · rfl
              · exact absurd (List.contains_iff_mem.mp hS) hcS
            have hD : (x == default && !head.contains default) = false := by
              by_cases hxd : x = default
              · have : head.contains default = true := by
                  apply List.contains_iff_mem.mpr; rw [← hxd, hhead]; simp
                rw [this]; simp
              · have : (x == default) = false := by simpa using hxd
                rw [this]; simp
            rw [hpc, hS, hD] at h1
            simp at h1)
        have hcg : cnt i mp r (fun x => counted (mp i.common) prec head default S x || (x == c && c != mp i.common)) =
            cnt i mp r (counted (mp i.common) prec head default (c :: S)) := by
          apply cnt_congr
          intro x
          rw [counted_cons _ _ _ _ _ _ hcn']
          have : (c != mp i.common) = true := by simp [hcn']
          rw [this, Bool.and_true]
        rw [← hcg, ← hadd]
        push_cast; omega
      · have hw : st.2.2 = true := by rw [← b3]; exact ht
        intro hin
        exact inv.wr hw (List.mem_append_left _ hin)



theorem colFold_inv (i : IIndex) (h : WF i) (mp : Int → Int) (n m : Nat) (dt : DT) (prec head : List Int)
    (default : Int) (hm : (rowCells i).length = m) (hp : PrecOK prec head default)
    (todo S : List Int) (hhead : head = todo.reverse ++ S) (st st' : Array Int × Array Int × Bool)
    (inv : ColInv i mp n m prec head default todo.reverse S st)
    (hf : todo.foldlM (colStep n dt (mp i.common) (ggetOf (i.entries.foldl (colGather mp (mp i.common)) []))) st
      = .ok st') :
    ColInv i mp n m prec head default [] head st' := by
  induction todo generalizing S st with
  | nil =>
    simp only [List.foldlM_nil, pure, Except.pure, Except.ok.injEq] at hf
    subst hf
    simp only [List.reverse_nil, List.nil_append] at hhead inv
    subst hhead; exact inv
  | cons c rest ih =>
    rw [List.foldlM_cons] at hf
    cases hs : colStep n dt (mp i.common) (ggetOf (i.entries.foldl (colGather mp (mp i.common)) [])) st c with
    | error e => simp only [hs, bind, Except.bind] at hf; cases hf
    | ok st1 =>
      simp only [hs, bind, Except.bind] at hf
      rw [List.reverse_cons] at inv hhead
      have hh : head = rest.reverse ++ c :: S := by rw [hhead, List.append_assoc]; rfl
      have inv1 := colStep_inv i h mp n m dt prec head default hm hp rest.reverse S c hh st st1 inv hs
      exact ih (c :: S) hh st1 inv1 hf

/-- the per-row output: the first value of `head` some cell of the row holds, else `default` -/
theorem collapseCore_spec (i : IIndex) (h : WF i) (mp : Int → Int) (n m : Nat) (dt : DT) (prec head : List Int)
    (default : Int) (hm : (rowCells i).length = m) (hp : PrecOK prec head default) (out : Array Int)
    (hc : collapseCore n m dt (mp i.common) (i.entries.foldl (colGather mp (mp i.common)) []) prec head default
      = .ok out) :
    out.size = n ∧ ∀ r < n, out.getD r 0 = (head.find? (rowHas i mp r)).getD default := by
  unfold collapseCore at hc
  simp only [bind, Except.bind] at hc
  generalize htr : (default != mp i.common || head.contains (mp i.common)) = track at hc
  cases hcc : colCounts n m track (i.entries.foldl (colGather mp (mp i.common)) [])
      (ggetOf (i.entries.foldl (colGather mp (mp i.common)) [])) prec head default with
  | error e => rw [hcc] at hc; cases hc
  | ok cc =>
    rw [hcc] at hc
    simp only at hc
    cases hf : head.reverse.foldlM (colStep n dt (mp i.common)
        (ggetOf (i.entries.foldl (colGather mp (mp i.common)) []))) (Array.replicate n default, cc, !track) with
    | error e => rw [hf] at hc; cases hc
    | ok st =>
      rw [hf] at hc
      simp only [pure, Except.pure, Except.ok.injEq] at hc
      subst hc
      have inv0 : ColInv i mp n m prec head default head.reverse.reverse [] (Array.replicate n default, cc, !track) := by
        rw [List.reverse_reverse]
        cases track with
        | true =>
          obtain ⟨s, g⟩ := colCounts_spec i h mp n m prec head default hp.last cc hcc
          exact ⟨by simp, s, fun r hr _ => by simp [getD_replicate n default r hr], fun _ => g, fun hf => by simp at hf⟩
        | false =>
          have hsz : cc.size = n := by
            unfold colCounts at hcc
            simp only [Bool.false_eq_true, if_false, pure, Except.pure, Except.ok.injEq] at hcc
            rw [← hcc]; simp
          refine ⟨by simp, hsz, fun r hr _ => by simp [getD_replicate n default r hr], fun hf => by simp at hf, fun _ => ?_⟩
          rw [Bool.or_eq_false_iff] at htr
          intro hin
          have := List.contains_iff_mem.mpr hin
          rw [htr.2] at this; cases this
      have fin := colFold_inv i h mp n m dt prec head default hm hp head.reverse [] (by simp) _ st inv0 hf
      exact ⟨fin.osz, fun r hr => fin.out r hr (by simp)⟩

theorem eraseDups_nodup (n : Nat) (l : List Int) (hn : l.length ≤ n) : l.eraseDups.Nodup := by
  induction n generalizing l with
  | zero =>
    have : l = [] := List.eq_nil_of_length_eq_zero (by omega)
    subst this; simp
  | succ n ih =>
    cases l with
    | nil => simp
    | cons a as =>
      rw [List.eraseDups_cons]
      apply List.nodup_cons.mpr
      constructor
      · intro hb
        have hb' := List.mem_eraseDups.mp hb
        have := (List.mem_filter.mp hb').2
        simp at this
      · apply ih
        have := List.length_filter_le (fun b => !b == a) as
        simp only [List.length_cons] at hn
        omega

theorem find?_and_ne (p : Int → Bool) (a : Int) (hpa : p a = false) (as : List Int) :
    as.find? (fun x => decide ((!x == a) = true ∧ p x = true)) = as.find? p := by
  induction as with
  | nil => rfl
  | cons b bs ih =>
    rw [List.find?_cons, List.find?_cons, ih]
    by_cases hb : b = a
    · subst hb; simp [hpa]
    · cases hpb : p b <;> simp [hb]

theorem find?_eraseDups (p : Int → Bool) (n : Nat) (l : List Int) (hn : l.length ≤ n) :
    l.eraseDups.find? p = l.find? p := by
  induction n generalizing l with
  | zero =>
    have : l = [] := List.eq_nil_of_length_eq_zero (by omega)
    subst this; simp
  | succ n ih =>
    cases l with
    | nil => simp
    | cons a as =>
      rw [List.eraseDups_cons, List.find?_cons, List.find?_cons]
      cases hpa : p a with
      | true => rfl
      | false =>
        simp only
        rw [ih]
        · rw [List.find?_filter]
          exact find?_and_ne p a hpa as
        · have := List.length_filter_le (fun b => !b == a) as
          simp only [List.length_cons] at hn
          omega



theorem precOK_of_last (ys : List Int) (default : Int) :
    PrecOK (ys ++ [default]) ys.eraseDups default := by
  refine ⟨eraseDups_nodup _ ys (Nat.le_refl _), ?_, ?_, ?_⟩
  · intro c hc
    apply List.contains_iff_mem.mpr
    exact List.mem_append_left _ (List.mem_eraseDups.mp hc)
  · apply List.contains_iff_mem.mpr; simp
  · intro x hx
    rcases List.mem_append.mp (List.contains_iff_mem.mp hx) with h | h
    · exact Or.inl (List.mem_eraseDups.mpr h)
    · exact Or.inr (List.mem_singleton.mp h)

/-- searching the whole list or everything but its last value makes no difference when that value is the fallback -/
theorem find?_getD_last (p : Int → Bool) (ys : List Int) (default : Int) :
    ((ys ++ [default]).find? p).getD default = (ys.find? p).getD default := by
  rw [List.find?_append]
  cases ys.find? p with
  | some x => rfl
  | none =>
    simp only [Option.none_or, List.find?_cons, List.find?_nil]
    cases p default <;> rfl

/-- **`collapsed(precedence, mapping)` on the dense array**: every row of the result holds the first value of
`precedence` that some (mapped) cell of that row holds, else the last value of `precedence` — for every precedence
list (repeats, negatives, values that occur nowhere, present values left out) and every mapping -/
theorem collapsed_refines (i : IIndex) (h : WF i) (hnd : i.ndim = 2) (prec : List Int)
    (mapping : Option (List (Int × Int))) (res : IIndex) (hr : collapsed i prec mapping = .ok res) :
    WF res ∧ res.shape = [i.nrows] ∧ ∀ default, prec.getLast? = some default → ∀ r < i.nrows,
      denseAt res r [] = (prec.find? (rowHas i (mapGet mapping) r)).getD default := by
  refine ⟨collapsed_wf i prec mapping res hr, ?_⟩
  unfold IIndex.ndim at hnd
  match hsh : i.shape, hnd with
  | [n, m], _ =>
  have hnr : i.nrows = n := by unfold IIndex.nrows; rw [hsh]; rfl
  have hm : (rowCells i).length = m := by
    unfold rowCells; rw [hiCells_card, hsh]; simp [prod]
  unfold collapsed at hr
  rw [hsh] at hr
  simp only [List.length_cons, List.length_nil] at hr
  rw [if_neg (by omega)] at hr
  simp only [List.getD_cons_zero, List.getD_cons_succ] at hr
  by_cases hn0 : n = 0
  · rw [if_pos hn0] at hr
    simp only [pure, Except.pure, Except.ok.injEq] at hr
    subst hr
    rw [hnr, hn0]
    exact ⟨rfl, fun _ _ r hr => absurd hr (by omega)⟩
  · rw [if_neg hn0] at hr
    cases hlast : prec.getLast? with
    | none => rw [hlast] at hr; cases hr
    | some default =>
      rw [hlast] at hr
      simp only at hr
      split at hr
      · cases hr
      · simp only [bind, Except.bind] at hr
        split at hr
        · cases hr
        · rename_i out hout
          split at hr
          · cases hr
          · rename_i rr hrr
            simp only [pure, Except.pure, Except.ok.injEq] at hr
            subst hr
            obtain ⟨ys, hys⟩ := List.getLast?_eq_some_iff.mp hlast
            have hdl : prec.dropLast = ys := by rw [hys]; simp
            rw [hdl] at hout
            have hp : PrecOK prec ys.eraseDups default := by rw [hys]; exact precOK_of_last ys default
            obtain ⟨hsz, hout'⟩ := collapseCore_spec i h (mapGet mapping) n m _ prec _ default hm hp out hout
            have harr : ArrOK { shape := [n], data := out.toList } :=
              ⟨Or.inl rfl, by simp [prod, hsz]⟩
            obtain ⟨es, hidx, hb⟩ := fromArray_built { shape := [n], data := out.toList } {} rr.1 rr.2 harr
              (by rw [hrr]) (fun c hc => by simp at hc)
            refine ⟨by rw [hidx, hnr], ?_⟩
            intro d hd r hr
            cases hd
            rw [hnr] at hr
            have hdense := built_dense { shape := [n], data := out.toList } none rr.1.common es hb [n] r
              (by simp [Arr.nrows]; exact hr) 0 (by simp [Arr.cols, Arr.twoD])
              (({ shape := [n], data := out.toList } : Arr).at r 0) (by simp [mapVal, pure, Except.pure])
            have hkey : (({ shape := [n], data := out.toList } : Arr).key
                (({ shape := [n], data := out.toList } : Arr).at r 0) 0).drop 1 = [] := by
              simp [Arr.key, Arr.twoD]
            rw [hkey] at hdense
            rw [hidx]
            show denseAt ⟨es, rr.1.common, [n]⟩ r [] = _
            rw [hdense]
            have hat : ({ shape := [n], data := out.toList } : Arr).at r 0 = out.getD r 0 := by
              simp [Arr.at, Arr.ncols, Array.getD_eq_getD_getElem?, List.getD_eq_getElem?_getD]
            rw [hat, hout' r hr, find?_eraseDups _ _ ys (Nat.le_refl _), hys, find?_getD_last]


end Catii.IIdx
