import CatiiModel.Store
/-! Soundness of the may-alias check: a program that passes it never changes an input buffer. -/
namespace Catii.Store

/-- input buffers are the ids below `k`; `t` over-approximates the variables naming them -/
def Covers (k : Nat) (t : List Var) (s : St) : Prop := ∀ v, s.env v < k → v ∈ t

theorem safe_sound (w : Nat → Nat) (k : Nat) (prog : List Instr) :
    ∀ (t : List Var) (s : St) (n : Nat), check prog t = true → Covers k t s → k ≤ s.next →
      ∀ b < k, (exec w prog s n).heap b = s.heap b := by
  induction prog with
  | nil => intro t s n _ _ _ b _; rfl
  | cons i rest ih =>
    intro t s n hc hcov hk b hb
    cases i with
    | alias d src =>
      simp only [check] at hc
      simp only [exec]
      refine (ih _ { s with env := fun v => if v = d then s.env src else s.env v } n hc ?_ hk b hb).trans rfl
      intro v hv
      simp only at hv
      by_cases hvd : v = d
      · subst hvd
        simp only [if_true] at hv
        have hsrc := hcov src hv
        have : t.contains src = true := by simpa using hsrc
        rw [if_pos this]; exact List.mem_cons_self
      · simp only [hvd, if_false] at hv
        have hvt := hcov v hv
        by_cases hs : t.contains src = true
        · rw [if_pos hs]; exact List.mem_cons_of_mem _ hvt
        · rw [if_neg hs]
          simp only [List.mem_filter, bne_iff_ne, ne_eq]
          exact ⟨hvt, hvd⟩
    | fresh d =>
      simp only [check] at hc
      simp only [exec]
      refine (ih _ _ (n + 1) hc ?_ (by simp; omega) b hb).trans ?_
      rotate_left
      · simp only
        have : b ≠ s.next := by omega
        simp [this]
      · intro v hv
        simp only at hv
        by_cases hvd : v = d
        · subst hvd; simp only [if_true] at hv; omega
        · simp only [hvd, if_false] at hv
          simp only [List.mem_filter, bne_iff_ne, ne_eq]
          exact ⟨hcov v hv, hvd⟩
    | write d =>
      simp only [check, Bool.and_eq_true, Bool.not_eq_true'] at hc
      simp only [exec]
      refine (ih _ { s with heap := fun b => if b = s.env d then w n else s.heap b } (n + 1) hc.2 hcov hk b hb).trans ?_
      simp only
      have hdt : d ∉ t := by
        intro hm
        have : t.contains d = true := by simpa using hm
        rw [this] at hc; exact absurd hc.1 (by simp)
      have : b ≠ s.env d := by
        intro heq
        exact hdt (hcov d (by rw [← heq]; exact hb))
      simp [this]

end Catii.Store
