import CatiiModel.Gen.IndxLoadGen
import CatiiProofs.Indx
/-! The reader program REGENERATED from `IndxIO.load` (`tools/translate_indx.py`) run on the bytes of a file is the model
`load`, for every byte string - well-formed, torn or garbage. -/
namespace Catii.Indx

theorem throw_bind' {α β : Type} (e : Err) (f : α → M β) : ((throw e : M α) >>= f) = throw e := rfl

theorem runR_loadProgram (bs : Bytes) : runR Gen.loadProgram bs = load bs := by
  unfold runR Gen.loadProgram load
  simp only [List.foldlM_cons, List.foldlM_nil, stepR]
  by_cases h1 : bs.take 4 ≠ Gen.indxMagic
  · rw [if_pos h1, if_pos h1]; rfl
  · rw [if_neg h1, if_neg h1]
    simp only [pure_bind]
    by_cases h2 : (bs.drop 4).take 4 ≠ Gen.indxVersion
    · rw [if_pos h2, if_pos h2]; rfl
    · rw [if_neg h2, if_neg h2]
      simp only [pure_bind]
      by_cases h3 : ((bs.drop 8).take 8).length < 8
      · rw [if_pos h3, if_pos h3]; rfl
      · rw [if_neg h3, if_neg h3]
        simp only [pure_bind]
        by_cases h4 : bs.length < 16 + decLE ((bs.drop 8).take 8)
        · rw [if_pos h4, if_pos h4]; rfl
        · rw [if_neg h4, if_neg h4]
          simp only [pure_bind, bind_assoc, parsePayload, RSt.set]

end Catii.Indx
