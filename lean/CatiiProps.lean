import CatiiProps.C02
import CatiiProps.C08
import CatiiProps.C09
import CatiiProps.C10
import CatiiProps.C11
import CatiiProps.C12
import CatiiProps.C14
import CatiiProps.C19
