import CatiiProps.C19
