import Lean.Data.Json
import CatiiModel.Gen.WalkGen
/-! JSON-lines driver for the walk regenerated from ccube._walk (own file: see Driver/KernGen.lean). -/
open Lean Catii

namespace DriverWalk

abbrev R := Except String

def natList (j : Json) : R (List Nat) := do (← j.getArr?).toList.mapM (·.getNat?)
def jNat (n : Nat) : Json := Json.num (JsonNumber.fromNat n)
def jNats (l : List Nat) : Json := Json.arr (l.map jNat).toArray

def parseDim (j : Json) : R Cube.Dim := do
  let es ← (← (← j.getObjVal? "entries").getArr?).toList.mapM fun e => do
    match (← e.getArr?).toList with
    | [c, r] => pure ((← c.getNat?), (← natList r))
    | _ => throw "dim entry must be [category, rowids]"
  pure { entries := es, common := ← (← j.getObjVal? "common").getNat? }

def jCo (co : Cube.Co) : Json := Json.arr (co.map fun o => match o with | some v => jNat v | none => Json.null).toArray

def handle (j : Json) : R Json := do
  let dims ← (← (← j.getObjVal? "dims").getArr?).toList.mapM parseDim
  pure (Json.arr ((WalkGen.walk dims).map fun (co, rows) => Json.arr #[jCo co, jNats rows]).toArray)

partial def loop (h : IO.FS.Stream) : IO Unit := do
  let line ← h.getLine
  if line.isEmpty then return ()
  let out := match Json.parse line with
    | .error e => Json.mkObj [("err", "parse"), ("msg", Json.str e)]
    | .ok j => match handle j with
      | .ok r => r
      | .error e => Json.mkObj [("err", "request"), ("msg", Json.str e)]
  IO.println out.compress
  loop h

end DriverWalk

def main : IO Unit := do DriverWalk.loop (← IO.getStdin)
