import Lean.Data.Json
import CatiiModel.Gen.KernelsGen
/-! JSON-lines driver for the kernels regenerated from set_operations.pyx (kept apart from Driver/Main.lean so that a
source change the translator cannot follow does not take the models of the other properties down with it). -/
open Lean Catii

namespace DriverGen

abbrev R := Except String

def natList (j : Json) : R (List Nat) := do (← j.getArr?).toList.mapM (·.getNat?)
def jNat (n : Nat) : Json := Json.num (JsonNumber.fromNat n)
def jNats (l : List Nat) : Json := Json.arr (l.map jNat).toArray

def jKern : Kern.M (Array Nat) → Json
  | .ok a => Json.mkObj [("ok", jNats a.toList)]
  | .error (.oobRead i n) => Json.mkObj [("err", "oobRead"), ("i", jNat i), ("len", jNat n)]
  | .error (.oobWrite i n) => Json.mkObj [("err", "oobWrite"), ("i", jNat i), ("len", jNat n)]
  | .error (.value m) => Json.mkObj [("err", "value"), ("msg", Json.str m)]

/-- what `numpy.empty` hands out: words that belong to no operand (the harness never uses values in this range) -/
def junk (i : Nat) : Nat := 3735879680 + (i % 65536)

def handle (j : Json) : R Json := do
  let fn ← (← j.getObjVal? "fn").getStr?
  if fn == "union_many" then
    let arrs ← (← (← j.getObjVal? "arrays").getArr?).toList.mapM (fun a => do pure (← natList a).toArray)
    return jKern (KernGen.set_union_merge_many junk ((Kern.concatAll (arrs.filter fun a => a.size ≠ 0)).size + 1) arrs)
  let L := (← natList (← j.getObjVal? "l")).toArray
  let Rr := (← natList (← j.getObjVal? "r")).toArray
  match fn with
  | "inter" => pure (jKern (KernGen.set_intersect_merge_np junk L Rr))
  | "union" => pure (jKern (KernGen.set_union_merge_np junk L Rr))
  | "diff" => pure (jKern (KernGen.set_difference_merge_np junk L Rr))
  | _ => throw s!"unknown fn {fn}"

partial def loop (h : IO.FS.Stream) : IO Unit := do
  let line ← h.getLine
  if line.isEmpty then return ()
  let out := match Json.parse line with
    | .error e => Json.mkObj [("err", "parse"), ("msg", Json.str e)]
    | .ok j => match handle j with
      | .ok r => r
      | .error e => Json.mkObj [("err", "request"), ("msg", Json.str e)]
  IO.println out.compress
  loop h

end DriverGen

def main : IO Unit := do DriverGen.loop (← IO.getStdin)
