import Lean.Data.Json
import CatiiModel
/-! JSON-lines driver: one request object per line on stdin, one answer per line on stdout. -/
open Lean Catii

namespace Driver

abbrev R := Except String

def fld (j : Json) (k : String) : R Json := j.getObjVal? k
def int (j : Json) : R Int := j.getInt?
def nat (j : Json) : R Nat := j.getNat?
def arr (j : Json) : R (Array Json) := j.getArr?
def fInt (j : Json) (k : String) : R Int := fld j k >>= int
def fNat (j : Json) (k : String) : R Nat := fld j k >>= nat
def fStr (j : Json) (k : String) : R String := fld j k >>= (·.getStr?)
def natList (j : Json) : R (List Nat) := do (← arr j).toList.mapM nat
def intList (j : Json) : R (List Int) := do (← arr j).toList.mapM int
def optOf (f : Json → R α) (j : Json) : R (Option α) := if j.isNull then pure none else some <$> f j
def jNats (l : List Nat) : Json := Json.arr (l.map (fun n => Json.num (JsonNumber.fromNat n))).toArray
def jInts (l : List Int) : Json := Json.arr (l.map (fun n => Json.num (JsonNumber.fromInt n))).toArray
def jInt (n : Int) : Json := Json.num (JsonNumber.fromInt n)
def jNat (n : Nat) : Json := Json.num (JsonNumber.fromNat n)

open Catii.Kern in
def jErr : Kern.Err → Json
  | .oobRead i n => Json.mkObj [("err", "oobRead"), ("i", jNat i), ("len", jNat n)]
  | .oobWrite i n => Json.mkObj [("err", "oobWrite"), ("i", jNat i), ("len", jNat n)]
  | .value m => Json.mkObj [("err", "value"), ("msg", Json.str m)]

def jKern : Kern.M (Array Nat) → Json
  | .ok a => Json.mkObj [("ok", jNats a.toList)]
  | .error e => jErr e
def jKernO : Kern.M (Option (Array Nat)) → Json
  | .ok (some a) => Json.mkObj [("ok", jNats a.toList)]
  | .ok none => Json.mkObj [("ok", Json.null)]
  | .error e => jErr e

def optArr (j : Json) (k : String) : R (Option (Array Nat)) := do
  match j.getObjVal? k with
  | .ok v => if v.isNull then pure none else pure (some (← natList v).toArray)
  | .error _ => pure none

def handleKern (j : Json) : R Json := do
  let fn ← fStr j "fn"
  match fn with
  | "union_many" =>
      let arrs ← (← arr (← fld j "arrays")).toList.mapM (fun a => do pure (← natList a).toArray)
      -- the index loop with checked accesses (C09) and the list merge the exactness theorem is about (C08) must agree
      let checked := Kern.unionManyChecked arrs
      let merged := Kern.unionManyK arrs
      match checked, merged with
      | .ok a, .ok b => if a == b then pure (jKern checked) else pure (Json.mkObj [("err", Json.str "modelsDisagree")])
      | _, _ => pure (jKern checked)
  | _ =>
    let l ← optArr j "l"; let r ← optArr j "r"
    let guardOr := match j.getObjVal? "guard_or" with | .ok (Json.bool b) => b | _ => true
    match fn, l, r with
    | "inter", some L, some R => pure (jKern (Kern.interK L R guardOr))
    | "union", some L, some R => pure (jKern (Kern.unionK L R))
    | "diff", some L, some R => pure (jKern (Kern.diffK L R))
    | "intersection", l, r => pure (jKernO (Kern.intersectionW l r))
    | "union_w", l, r => pure (jKernO (Kern.unionW l r))
    | "difference", l, r => pure (jKernO (Kern.differenceW l r))
    | _, _, _ => throw s!"bad kern request {fn}"

def hexDigit (n : Nat) : Char := if n < 10 then Char.ofNat (48 + n) else Char.ofNat (87 + n)
def toHex (bs : List Nat) : String := String.ofList (bs.flatMap fun b => [hexDigit (b / 16), hexDigit (b % 16)])
def hexVal (c : Char) : Nat :=
  if c.toNat ≥ 97 then c.toNat - 87 else if c.toNat ≥ 65 then c.toNat - 55 else c.toNat - 48
def fromHex (s : String) : List Nat :=
  let rec go : List Char → List Nat
    | a :: b :: rest => (hexVal a * 16 + hexVal b) :: go rest
    | _ => []
  go s.toList

def indxErrName : Indx.Err → String
  | .header => "header" | .version => "version" | .structShort => "structShort"
  | .mmapShort => "mmapShort" | .bufferSmall => "bufferSmall" | .valueError m => "valueError:" ++ m
  | .wrongLength => "wrongLength" | .scope m => "scope:" ++ m

def jEntries (es : List Indx.Entry) : Json :=
  Json.arr (es.map fun e => Json.arr #[jNats e.coords, jNats e.rowids]).toArray

def parseEntries (j : Json) : R (List Indx.Entry) := do
  (← arr j).toList.mapM fun e => do
    let a ← arr e
    match a.toList with
    | [c, r] => pure ⟨← natList c, ← natList r⟩
    | _ => throw "entry must be [coords, rowids]"

def jLoad : Indx.M (List Indx.Entry × Nat × Nat) → Json
  | .ok (es, c, rw) => Json.mkObj [("ok", Json.mkObj [("entries", jEntries es), ("common", jNat c), ("rw", jNat rw)])]
  | .error e => Json.mkObj [("err", Json.str (indxErrName e))]

def handleIndx (op : String) (j : Json) : R Json := do
  match op with
  | "indx_save" =>
      let es ← parseEntries (← fld j "entries")
      let c ← fNat j "common"
      let wr := match j.getObjVal? "wr" with | .ok v => v.getNat?.toOption.getD 4 | _ => 4
      let u32 := match j.getObjVal? "u32size" with | .ok (Json.bool b) => b | _ => false
      match Indx.save es c wr u32 with
      | .ok bs => pure (Json.mkObj [("ok", Json.str (toHex bs))])
      | .error e => pure (Json.mkObj [("err", Json.str (indxErrName e))])
  | "indx_roundtrip" =>
      let es ← parseEntries (← fld j "entries")
      let c ← fNat j "common"
      match Indx.save es c with
      | .ok bs => pure (jLoad (Indx.load bs))
      | .error e => pure (Json.mkObj [("err", Json.str ("save:" ++ indxErrName e))])
  | "indx_layout" =>
      let es ← parseEntries (← fld j "entries")
      pure (Json.str (toHex (Indx.encodeWith es (← fNat j "common") (← fNat j "wi") (← fNat j "wr"))))
  | "indx_load" => pure (jLoad (Indx.load (fromHex (← fStr j "hex"))))
  | "indx_load_prefixes" =>
      let bs := fromHex (← fStr j "hex")
      let res := (List.range bs.length).map fun k =>
        match Indx.load (bs.take k) with
        | .ok _ => Json.str "LOADED"
        | .error e => Json.str (indxErrName e)
      pure (Json.arr res.toArray)
  | "indx_size" =>
      -- size arithmetic only (no data materialised): n entries of arity a, word wi, wr, total row ids
      let n ← fNat j "n"; let a ← fNat j "arity"; let wi ← fNat j "wi"; let wr ← fNat j "wr"; let t ← fNat j "total"
      pure (Json.mkObj [("size", jNat (Indx.bufferSize n a wi wr t)), ("size_u32", jNat (Indx.bufferSizeU32 n a wi wr t))])
  | _ => throw s!"unknown op {op}"

def parseDim (j : Json) : R Cube.Dim := do
  let es ← (← arr (← fld j "entries")).toList.mapM fun e => do
    match (← arr e).toList with
    | [c, r] => pure ((← nat c), (← natList r))
    | _ => throw "dim entry must be [category, rowids]"
  pure { entries := es, common := ← fNat j "common" }

def parseDims (j : Json) : R (List Cube.Dim) := do (← arr (← fld j "dims")).toList.mapM parseDim

def jCo (co : Cube.Co) : Json := Json.arr (co.map fun o => match o with | some v => jNat v | none => Json.null).toArray

def jCubeErr : Cube.Err → Json
  | .indexError c => Json.mkObj [("err", "IndexError"), ("cell", jNats c)]
  | .shape m => Json.mkObj [("err", "shape"), ("msg", Json.str m)]

def handleCube (op : String) (j : Json) : R Json := do
  let dims ← parseDims j
  match op with
  | "walk" =>
      pure (Json.arr ((Cube.interactions dims).map fun (co, rows) => Json.arr #[jCo co, jNats rows]).toArray)
  | "count" =>
      let N ← fNat j "N"
      let shape ← match j.getObjVal? "shape" with
        | .ok v => if v.isNull then pure none else some <$> natList v
        | .error _ => pure none
      let exts := match shape with | some s => s | none => dims.map Cube.inferExtent
      if exts.length ≠ dims.length then pure (jCubeErr (.shape "arity")) else
      match Cube.fillCount exts (Cube.interactions dims) (Cube.initCount exts N) with
      | .error e => pure (jCubeErr e)
      | .ok filled =>
        let wc := Cube.workCells exts
        let final := Cube.passes exts (dims.map (·.common)) dims.length filled
        let cells := Cube.allCells exts
        pure (Json.mkObj [
          ("shape", jNats exts),
          ("filled", jInts (wc.map (Cube.rget filled))),
          ("diffed", jInts (wc.map (Cube.rget final))),
          ("counts", jInts (cells.map (Cube.rget final))),
          ("missing", Json.arr ((cells.filter fun c => Cube.rget final c == 0).map jNats).toArray),
          ("brute", jNats (cells.map (Cube.brute dims N)))])
  | _ => throw s!"unknown op {op}"

open Catii.IIdx in
def parseIdx (j : Json) : R IIdx.IIndex := do
  let es ← (← arr (← fld j "entries")).toList.mapM fun e => do
    match (← arr e).toList with
    | [k, r] => pure ((← intList k), (← natList r))
    | _ => throw "index entry must be [key, rowids]"
  pure { entries := es, common := ← fInt j "common", shape := ← natList (← fld j "shape") }

def parseEnts (j : Json) : R (List (IIdx.Key × IIdx.Rows)) := do
  (← arr j).toList.mapM fun e => do
    match (← arr e).toList with
    | [k, r] => pure ((← intList k), (← natList r))
    | _ => throw "entry must be [key, rowids]"

def jIdx (i : IIdx.IIndex) : Json :=
  Json.mkObj [("shape", jNats i.shape), ("common", jInt i.common),
    ("entries", Json.arr (i.entries.map fun e => Json.arr #[jInts e.1, jNats e.2]).toArray)]

def jArr (a : IIdx.Arr) : Json := Json.mkObj [("shape", jNats a.shape), ("data", jInts a.data)]

def parseArr (j : Json) : R IIdx.Arr := do
  pure { shape := ← natList (← fld j "shape"), data := ← intList (← fld j "data") }

def optFld (j : Json) (k : String) : Option Json :=
  match j.getObjVal? k with | .ok v => if v.isNull then none else some v | .error _ => none

def parsePairs (j : Json) : R (List (Int × Int)) := do
  (← arr j).toList.mapM fun p => do
    match (← arr p).toList with
    | [a, b] => pure ((← int a), (← int b))
    | _ => throw "pair expected"

def optPairs (j : Json) (k : String) : R (Option (List (Int × Int))) :=
  match optFld j k with | some v => some <$> parsePairs v | none => pure none

def optInt (j : Json) (k : String) : R (Option Int) :=
  match optFld j k with | some v => some <$> int v | none => pure none

def parseDT (s : String) : R DT :=
  match DT.all.find? (fun d => d.name == s) with | some d => pure d | none => throw s!"dtype {s}"

def iErrName : IIdx.Err → String
  | .keyError _ => "KeyError" | .typeError _ => "TypeError" | .valueError _ => "ValueError"
  | .overflow _ => "OverflowError" | .indexError _ => "IndexError" | .zeroDivision => "ZeroDivisionError"
  | .scope m => "scope:" ++ m

def jM {α} (f : α → Json) : IIdx.M α → Json
  | .ok v => Json.mkObj [("ok", f v)]
  | .error e => Json.mkObj [("err", Json.str (iErrName e))]

def handleIdx (j : Json) : R Json := do
  let m ← fStr j "m"
  let self : R IIdx.IIndex := do parseIdx (← fld j "self")
  match m with
  | "from_array" =>
      let a ← parseArr (← fld j "arr")
      let o : IIdx.FromOpts := { counts := ← optPairs j "counts", common := ← optInt j "common", mapping := ← optPairs j "mapping" }
      pure (jM (fun (r : IIdx.IIndex × Bool) => Json.mkObj [("idx", jIdx r.1), ("where", Json.bool r.2)]) (IIdx.fromArray a o))
  | "to_array" =>
      let dt ← match optFld j "dtype" with | some v => some <$> (v.getStr? >>= parseDT) | none => pure none
      pure (jM jArr (IIdx.toArray (← self) (← optPairs j "mapping") dt))
  | "shift_common" => pure (jM jIdx (IIdx.shiftCommon (← self) (← optInt j "new")))
  | "common_rowids" => pure (Json.mkObj [("ok", jNats (IIdx.commonRowids (← self) (← optInt j "col")))])
  | "append" => pure (jM jIdx (IIdx.append (← self) (← parseIdx (← fld j "other"))))
  | "update" => pure (jM jIdx (IIdx.update (← self) (← parseEnts (← fld j "entries"))))
  | "union_update" => pure (jM jIdx (IIdx.unionUpdate (← self) (← parseEnts (← fld j "entries"))))
  | "intersection_update" => pure (jM jIdx (IIdx.intersectionUpdate (← self) (← parseEnts (← fld j "entries"))))
  | "difference_update" => pure (jM jIdx (IIdx.differenceUpdate (← self) (← parseEnts (← fld j "entries"))))
  | "filtered" =>
      let mask ← (← arr (← fld j "mask")).toList.mapM (fun b => b.getBool?)
      pure (jM jIdx (IIdx.filtered (← self) mask (← fNat j "new_length")))
  | "sliced" =>
      let orders ← (← arr (← fld j "orders")).toList.mapM fun o =>
        if o.isNull then pure IIdx.Order.all
        else match o with
          | Json.arr a => do pure (IIdx.Order.list (← a.toList.mapM int))
          | _ => do pure (IIdx.Order.one (← int o))
      pure (jM jIdx (IIdx.sliced (← self) orders))
  | "slices1d" =>
      pure (Json.mkObj [("ok", Json.arr ((← self).slices.map fun (c, ix) => Json.arr #[jInts c, jIdx ix]).toArray)])
  | "reindexed" =>
      let shift := match optFld j "shift" with | some (Json.bool b) => b | _ => true
      let au := match optFld j "assume_unique" with | some (Json.bool b) => b | _ => false
      pure (jM jIdx (IIdx.reindexed (← self) (← optPairs j "mapping") shift au))
  | "collapsed" =>
      pure (jM jIdx (IIdx.collapsed (← self) (← intList (← fld j "precedence")) (← optPairs j "mapping")))
  | "column_stack" =>
      let ixs ← (← arr (← fld j "indexes")).toList.mapM parseIdx
      pure (jM jIdx (IIdx.columnStack ixs (← optInt j "new_common")))
  | "copy" => pure (Json.mkObj [("ok", jIdx (IIdx.copy (← self)))])
  | "eq" => pure (Json.mkObj [("ok", Json.bool (IIdx.eqIdx (← parseIdx (← fld j "a")) (← parseIdx (← fld j "b"))))])
  | "validates" => pure (Json.mkObj [("ok", Json.bool (IIdx.validates (← self)))])
  | "wf" => pure (Json.mkObj [("ok", Json.bool (IIdx.wf (← self)))])
  | "dense" => pure (Json.mkObj [("ok", jArr (IIdx.denseArr (← self)))])
  | "get" =>
      let force := match optFld j "force" with | some (Json.bool b) => b | _ => false
      pure (Json.mkObj [("ok", match IIdx.getKey (← self) (← intList (← fld j "key")) force with
        | some r => jNats r | none => Json.null)])
  | "items_force" =>
      pure (Json.mkObj [("ok", Json.arr ((IIdx.itemsForce (← self)).map fun e => Json.arr #[jInts e.1, jNats e.2]).toArray)])
  | "abscissae" => pure (Json.mkObj [("ok", jInts (IIdx.abscissae (← self)))])
  | _ => throw s!"unknown iidx method {m}"

def parseRat (j : Json) : R Rat := do
  match j with
  | Json.arr a =>
    match a.toList with
    | [p, q] => pure (mkRat (← int p) (← nat q))
    | _ => throw "rational must be [num, den]"
  | _ => pure ((← int j : Int) : Rat)

def jRat (x : Rat) : Json := Json.arr #[jInt x.num, jNat x.den]

def parseCol (j : Json) : R Agg.Col := do
  pure { vals := ← (← arr (← fld j "vals")).toList.mapM parseRat,
         valid := ← (← arr (← fld j "valid")).toList.mapM (·.getBool?) }

def parseSpec (j : Json) : R Agg.Spec := do
  let func ← match (← fStr j "func") with
    | "count" => pure Agg.Func.count | "valid_count" => pure Agg.Func.validCount
    | "sum" => pure Agg.Func.sum | "mean" => pure Agg.Func.mean
    | f => throw s!"func {f}"
  let fact ← match optFld j "fact" with | some f => some <$> parseCol f | none => pure none
  let weights ← match optFld j "weights" with
    | none => pure Agg.Weights.none
    | some w => match w.getObjVal? "scalar" with
      | .ok x => do pure (Agg.Weights.scalar (← parseRat x) (← (← fld w "valid").getBool?))
      | .error _ => Agg.Weights.rows <$> parseCol w
  let ign := match optFld j "ignore_missing" with | some (Json.bool b) => b | _ => false
  let ret ← match optFld j "ret" with
    | none => pure Agg.Ret.nan
    | some r => match r.getObjVal? "sentinel" with
      | .ok x => Agg.Ret.pair <$> parseRat x
      | .error _ => match r.getObjVal? "plain" with
        | .ok x => Agg.Ret.plain <$> parseRat x
        | .error _ => pure Agg.Ret.nan
  let tol ← match optFld j "zero_tol" with | some t => parseRat t | none => pure 0
  pure { func := func, fact := fact, weights := weights, ignoreMissing := ign, ret := ret, zeroTol := tol }

def jCellOut (s : Agg.Spec) (c : Agg.CellOut) : Json :=
  let (v, ok) := Agg.render s c
  Json.mkObj [("missing", Json.bool c.missing), ("value", jRat c.value),
    ("shown", match v with | some x => jRat x | none => Json.null), ("valid", Json.bool ok)]

def handleAgg (j : Json) : R Json := do
  let s ← parseSpec j
  let kind ← fStr j "kind"
  let N ← fNat j "N"
  let exts ← natList (← fld j "shape")
  let cells := Cube.allCells exts
  match kind with
  | "ccube" =>
      let dims ← parseDims j
      match Agg.ccubeAgg s dims exts N with
      | .error e => pure (jCubeErr e)
      | .ok f => pure (Json.mkObj [("cells", Json.arr (cells.map fun c => jCellOut s (f c)).toArray)])
  | "direct" =>
      let dims ← parseDims j
      pure (Json.mkObj [("cells", Json.arr (cells.map fun c => jCellOut s (Agg.directAgg s dims N c)).toArray)])
  | "xcube" =>
      let cols ← (← arr (← fld j "dense")).toList.mapM natList
      let vals : List (Nat → Nat) := cols.map fun col => fun r => col.getD r 0
      pure (Json.mkObj [("cells", Json.arr (cells.map fun c => jCellOut s (Agg.xcubeAgg s vals exts N c)).toArray)])
  | _ => throw s!"agg kind {kind}"

def handleStats (j : Json) : R Json := do
  let kind ← fStr j "kind"
  let pairs : R (List (Rat × Rat)) := do
    (← arr (← fld j "xs")).toList.mapM fun p => do
      match (← arr p).toList with
      | [a, w] => pure ((← parseRat a), (← parseRat w))
      | _ => throw "pair expected"
  match kind with
  | "wquantile" =>
      match Stats.wquantile (← parseRat (← fld j "p")) (← pairs) with
      | some x => pure (jRat x)
      | none => pure Json.null
  | "var" =>
      let weighted := match optFld j "weighted" with | some (Json.bool b) => b | _ => false
      pure (jRat (Stats.varModel weighted (← pairs)))
  | "stddev_missing" =>
      let ign := match optFld j "ignore_missing" with | some (Json.bool b) => b | _ => false
      pure (Json.bool (Stats.stddevMissing ign (← fNat j "valid") (← fNat j "missing")))
  | _ => throw s!"stats kind {kind}"

def handle (j : Json) : R Json := do
  let op ← fStr j "op"
  match op with
  | "fit_dtype" =>
      let mx ← fInt j "max"; let mn ← fInt j "min"
      pure (Json.str (fitDtype mx mn).name)
  | "indx_tables" =>
      let s ← fNat j "size"
      pure (Json.mkObj [("fmt", jNat (Gen.formatWidth s)), ("dtype", Json.str (Gen.wordDtype s).name)])
  | "kern" => handleKern j
  | "agg" => handleAgg j
  | "stats" => handleStats j
  | "iidx" => handleIdx j
  | "walk" | "count" => handleCube op j
  | "indx_save" | "indx_roundtrip" | "indx_layout" | "indx_load" | "indx_load_prefixes" | "indx_size" => handleIndx op j
  | _ => throw s!"unknown op {op}"

partial def loop (h : IO.FS.Stream) (out : IO.FS.Stream) : IO Unit := do
  let line ← h.getLine
  if line.isEmpty then return ()
  if line.trimAscii.isEmpty then loop h out else
  let ans := match Json.parse line with
    | .error e => Json.mkObj [("driver_error", Json.str s!"parse: {e}")]
    | .ok j => match handle j with
      | .ok r => r
      | .error e => Json.mkObj [("driver_error", Json.str e)]
  out.putStrLn ans.compress
  loop h out

end Driver

def main : IO Unit := do
  let i ← IO.getStdin
  let o ← IO.getStdout
  Driver.loop i o
  o.flush
