import Lean.Data.Json
import CatiiModel
/-! JSON-lines driver: one request object per line on stdin, one answer per line on stdout. -/
open Lean Catii

namespace Driver

abbrev R := Except String

def fld (j : Json) (k : String) : R Json := j.getObjVal? k
def int (j : Json) : R Int := j.getInt?
def nat (j : Json) : R Nat := j.getNat?
def arr (j : Json) : R (Array Json) := j.getArr?
def fInt (j : Json) (k : String) : R Int := fld j k >>= int
def fNat (j : Json) (k : String) : R Nat := fld j k >>= nat
def fStr (j : Json) (k : String) : R String := fld j k >>= (·.getStr?)
def natList (j : Json) : R (List Nat) := do (← arr j).toList.mapM nat
def intList (j : Json) : R (List Int) := do (← arr j).toList.mapM int
def optOf (f : Json → R α) (j : Json) : R (Option α) := if j.isNull then pure none else some <$> f j
def jNats (l : List Nat) : Json := Json.arr (l.map (fun n => Json.num (JsonNumber.fromNat n))).toArray
def jInts (l : List Int) : Json := Json.arr (l.map (fun n => Json.num (JsonNumber.fromInt n))).toArray
def jInt (n : Int) : Json := Json.num (JsonNumber.fromInt n)
def jNat (n : Nat) : Json := Json.num (JsonNumber.fromNat n)

def handle (j : Json) : R Json := do
  let op ← fStr j "op"
  match op with
  | "fit_dtype" =>
      let mx ← fInt j "max"; let mn ← fInt j "min"
      pure (Json.str (fitDtype mx mn).name)
  | "indx_tables" =>
      let s ← fNat j "size"
      pure (Json.mkObj [("fmt", jNat (Gen.formatWidth s)), ("dtype", Json.str (Gen.wordDtype s).name)])
  | _ => throw s!"unknown op {op}"

partial def loop (h : IO.FS.Stream) (out : IO.FS.Stream) : IO Unit := do
  let line ← h.getLine
  if line.isEmpty then return ()
  if line.trimAscii.isEmpty then loop h out else
  let ans := match Json.parse line with
    | .error e => Json.mkObj [("driver_error", Json.str s!"parse: {e}")]
    | .ok j => match handle j with
      | .ok r => r
      | .error e => Json.mkObj [("driver_error", Json.str e)]
  out.putStrLn ans.compress
  loop h out

end Driver

def main : IO Unit := do
  let i ← IO.getStdin
  let o ← IO.getStdout
  Driver.loop i o
  o.flush
