import CatiiModel.IIndex
-- translation FAILED: append is no longer [prelude; merge per axis count; new shape; shift_common()]
