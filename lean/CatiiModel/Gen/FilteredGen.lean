import CatiiModel.IIndex
-- translation FAILED: filtered is no longer [renumbering table; empty dict; loop; new shape; new index; shift_common(); return]: ['new_rowids = numpy.empty(len(mask), dtype=self.rowid_dtype)', 'new_rowids[mask] = numpy.arange(new_length, dtype=self.rowid_dtype)', 'new_entries = {}', 'dropped_stored = 0', 'for coords, row
