import CatiiModel.Indx
-- translation FAILED: payload-size term total_rowids * dtype.itemsize
