import CatiiModel.IIndex
-- translation FAILED: shift_common chooses the common value differently: expected `counts[self.common] = self.size - sum(counts.values())`, found `counts[self.common] = int(self.size * self.sparsity / 100)`
