/-!
# Scheduling model for the cube drivers (`ccube.calculate`, `xcube.calculate`)

A cube evaluation is a set of *tasks* (one per sub-cube).  Each task is a list of atomic steps;
every step of task `t` may change only locations in the task's footprint `F t` (the view
`region[flattened_slice]` it was handed) and depends only on that footprint and on immutable
inputs.  A schedule is any list of tagged steps; `runS` executes it.  The interrupt model
(`calcSerial`, `calcPooled`) folds over the tasks with a callback that may raise.  Core Lean only.
-/
namespace Catii.Sched

structure TStep (L V : Type) where
  tid : Nat
  act : (L → V) → (L → V)

def runS {L V : Type} (sch : List (TStep L V)) (σ : L → V) : L → V := sch.foldl (fun σ s => s.act σ) σ

/-- a step respects its task's footprint -/
structure Disciplined {L V : Type} (F : Nat → L → Prop) (s : TStep L V) : Prop where
  frame : ∀ σ l, ¬ F s.tid l → s.act σ l = σ l
  loc : ∀ σ σ', (∀ l, F s.tid l → σ l = σ' l) → ∀ l, F s.tid l → s.act σ l = s.act σ' l

/-! ## interrupts -/

/-- outcome of an evaluation whose interrupt callback is consulted before each task:
`raises i = some e` means the `i`-th invocation raises `e` -/
structure Outcome (E R : Type) where
  result : Except E R
  calls : Nat

/-- serial driver: `for subcube in product: check_interrupt(); fill(subcube)` then `reduce` -/
def calcSerial {E S R : Type} (tasks : List (S → S)) (raises : Nat → Option E) (init : S) (reduce : S → R) :
    Outcome E R :=
  let rec go (ts : List (S → S)) (i : Nat) (σ : S) : Outcome E R :=
    match ts with
    | [] => { result := .ok (reduce σ), calls := i }
    | t :: rest =>
      match raises i with
      | some e => { result := .error e, calls := i + 1 }
      | none => go rest (i + 1) (t σ)
  go tasks 0 init

/-- pooled driver (`pool.map` semantics): every task is started (the callback is consulted for each),
tasks whose callback raised do nothing, and afterwards one of the raised exceptions is re-raised —
`pick` chooses which one among the raising invocation indexes -/
def calcPooled {E S R : Type} (tasks : List (S → S)) (raises : Nat → Option E) (init : S) (reduce : S → R)
    (pick : List Nat → Nat) : Outcome E R :=
  let idx := List.range tasks.length
  let raising := idx.filter (fun i => (raises i).isSome)
  let σ := (idx.zip tasks).foldl (fun σ (p : Nat × (S → S)) => if (raises p.1).isSome then σ else p.2 σ) init
  match raising with
  | [] => { result := .ok (reduce σ), calls := tasks.length }
  | r :: rs =>
    let k := pick (r :: rs)
    match raises (if k ∈ r :: rs then k else r) with
    | some e => { result := .error e, calls := tasks.length }
    | none => { result := .ok (reduce σ), calls := tasks.length }   -- unreachable: the index is a raising one

/-! ## what the driver's source must look like for the models above to be models of it

`Gen/DriverGen.lean` (written by tools/translate_driver.py from the current `ccube.calculate` / `xcube.calculate`) records what
the source says about each of these points. -/

structure DriverFacts where
  regionsPerCall : Bool          -- `results = [func.get_initial_regions(self) for func in funcs]` once, before the task is defined
  callbackFirst : Bool           -- the task starts with `if self.check_interrupt is not None: self.check_interrupt()`
  callbackSites : Nat            -- call sites of the callback inside the task
  taskReturnsEarly : Bool        -- a `return` inside the task
  sharedStores : List String     -- attributes of `self` / enclosing names the task stores to
  diagnosticReads : List String  -- statements of `calculate` that READ a diagnostic for anything but the diagnostics' own bookkeeping
  viewSelection : List String    -- how the task selects its part of every region
  flattened : List String        -- where the selecting coordinates come from
  serialLoop : Bool              -- `for x in product: fill_one_cube(x)`
  workerHandsBack : Bool         -- worker = `try: fill_one_cube(x) except Exception: raise except BaseException as e: return e`
  poolMapReraise : Bool          -- `for exc in pool.map(worker, product): if exc is not None: raise exc` inside `closing(pool)`
deriving Repr, DecidableEq

/-- the shape `calcSerial`, `calcPooled`, the footprint discipline and "fresh regions per call" assume -/
def DriverFacts.modelled (d : DriverFacts) (diagnostics : List String) : Bool :=
  d.regionsPerCall && d.callbackFirst && d.callbackSites == 1 && !d.taskReturnsEarly &&
  d.sharedStores.all (fun s => diagnostics.contains s) && d.diagnosticReads.isEmpty &&
  d.viewSelection == ["regions = [region[tuple(flattened_slice)] for region in regions]"] &&
  d.flattened.length == 1 && d.serialLoop && d.workerHandsBack && d.poolMapReraise

end Catii.Sched
