import CatiiModel.Prelude
import CatiiModel.Gen.FitDtype
import CatiiModel.Gen.Consts
/-!
# INDX binary format (`src/catii/indxio.py`): `save` and `load` over byte lists

Bytes are `Nat`s below 256.  `save` mirrors the writer step by step: the coordinate word size
comes from the **regenerated** `fitDtype1` applied to `max(max coordinate, common)`, the payload
size is computed by the writer's own formula *before* writing and compared with the number of
bytes written afterwards (`f.tell() != 16 + buffer_size`).  `load` mirrors the reader: short
reads of the fixed header, the mapping of exactly `16 + size` bytes (assumed to fail when the
file is shorter — validated by the harness on every prefix), then a sequential parse of the
mapped buffer with the reader's width ladders (`Gen.formatWidth`, `Gen.wordDtype`, regenerated).
Core Lean only.
-/
namespace Catii.Indx

abbrev Bytes := List Nat

def encLE : Nat → Nat → Bytes
  | 0, _ => []
  | w + 1, n => n % 256 :: encLE w (n / 256)

def decLE : Bytes → Nat
  | [] => 0
  | b :: bs => b + 256 * decLE bs

structure Entry where
  coords : List Nat
  rowids : List Nat
deriving Repr, DecidableEq, Inhabited

inductive Err
  | header | version | structShort | mmapShort | bufferSmall | valueError (m : String)
  | wrongLength | scope (m : String)
deriving Repr, DecidableEq

abbrev M := Except Err

def maxList (xs : List Nat) (init : Nat) : Nat := xs.foldl max init

/-- `fit_dtype(max(numpy.max(index), common) if len(index) != 0 else common).itemsize` -/
def indexWordSize (es : List Entry) (common : Nat) : Nat :=
  (fitDtype1 (Int.ofNat (maxList (es.flatMap (·.coords)) common))).itemsize

def arityOf : List Entry → Nat
  | [] => 0
  | e :: _ => e.coords.length

/-- the writer's size formula (Python ints after the repair of finding F11) -/
def bufferSize (n arity wi wr sumLen : Nat) : Nat :=
  1 + 4 + 1 + wi + n * arity * wi + 1 + n * wr + sumLen * wr

/-- the historical formula: `sum(lengths) * itemsize` evaluated in uint32 (NumPy 2 scalar rules) -/
def bufferSizeU32 (n arity wi wr sumLen : Nat) : Nat :=
  (1 + 4 + 1 + wi + n * arity * wi + 1 + n * wr + ((sumLen % 2^32) * wr) % 2^32) % 2^32

def payload (es : List Entry) (common arity wi wr : Nat) : Bytes :=
  [arity] ++ encLE 4 es.length ++ [wi] ++ encLE wi common
    ++ es.flatMap (fun e => e.coords.flatMap (encLE wi))
    ++ [wr] ++ es.flatMap (fun e => encLE wr e.rowids.length)
    ++ es.flatMap (fun e => e.rowids.flatMap (encLE wr))

/-- `IndxIO.save(f, entries, common, dtype)`; `wr` = `dtype.itemsize` (4 for the uint32 row ids the
library uses); `u32size = true` selects the historical uint32 size arithmetic (finding F11). -/
def save (es : List Entry) (common : Nat) (wr : Nat := 4) (u32size : Bool := false) : M Bytes := do
  if es.length > 2^32 then throw (.valueError "too many coordinates")
  let arity := arityOf es
  if es.any (fun e => e.coords.length != arity) then throw (.scope "ragged coordinate tuples")
  if es ≠ [] ∧ arity = 0 then throw (.scope "zero-arity coordinates")
  if common ≥ 2^63 ∨ es.any (fun e => e.coords.any (· ≥ 2^63)) then throw (.scope "value >= 2^63")
  if es.any (fun e => e.rowids.length ≥ 256^wr) then throw (.scope "length does not fit the rowid dtype")
  if es.any (fun e => e.rowids.any (· ≥ 256^wr)) then throw (.scope "row id does not fit the rowid dtype")
  let wi := indexWordSize es common
  let sumLen := (es.map (·.rowids.length)).sum
  let size := if u32size then bufferSizeU32 es.length arity wi wr sumLen
              else bufferSize es.length arity wi wr sumLen
  if arity > 255 then throw (.scope "struct.error: arity > 255")
  if es.length ≥ 2^32 then throw (.scope "struct.error: count >= 2^32")
  if size ≥ 2^64 then throw (.scope "struct.error: size >= 2^64")
  let out := Gen.indxMagic ++ Gen.indxVersion ++ encLE 8 size ++ payload es common arity wi wr
  if out.length ≠ 16 + size then throw .wrongLength
  pure out

/-- an *independent writer*: the documented layout with any word sizes `wi`, `wr` -/
def encodeWith (es : List Entry) (common wi wr : Nat) : Bytes :=
  let p := payload es common (arityOf es) wi wr
  Gen.indxMagic ++ Gen.indxVersion ++ encLE 8 p.length ++ p

/-! ## the writer as a program

`Gen/IndxSaveGen.lean` (written by tools/translate_indx.py from the current `IndxIO.save`) lists every write of the
writer in source order as a `WOp`; `runW` is what those writes put into the file. -/

inductive WField | bufferSize | arity | count | indexWordSize | common | rowidWordSize
deriving Repr, DecidableEq

inductive WOp
  | const (b : Bytes)                 -- f.write(<class byte-string constant>)
  | pack (width : Nat) (f : WField)   -- f.write(struct.pack("<Q" | "<L" | "<H" | "<B", field))
  | packFmt (f : WField)              -- f.write(struct.pack(IndxIO.format(index_word_size), field))
  | matrix                            -- index.tofile(f): the coordinate matrix, row-major, in words of the fitted size
  | lengths                           -- lengths.tofile(f)
  | rowids                            -- for i in list_index: entries[i].tofile(f)
deriving Repr, DecidableEq

structure WCtx where
  es : List Entry
  common : Nat
  arity : Nat
  wi : Nat
  wr : Nat
  size : Nat

def WCtx.field (c : WCtx) : WField → Nat
  | .bufferSize => c.size
  | .arity => c.arity
  | .count => c.es.length
  | .indexWordSize => c.wi
  | .common => c.common
  | .rowidWordSize => c.wr

def interpW (c : WCtx) : WOp → Bytes
  | .const b => b
  | .pack w f => encLE w (c.field f)
  | .packFmt f => encLE (Gen.formatWidth c.wi) (c.field f)
  | .matrix => c.es.flatMap (fun e => e.coords.flatMap (encLE c.wi))
  | .lengths => c.es.flatMap (fun e => encLE c.wr e.rowids.length)
  | .rowids => c.es.flatMap (fun e => e.rowids.flatMap (encLE c.wr))

def runW (c : WCtx) (p : List WOp) : Bytes := p.flatMap (interpW c)

/-! ## reader -/

def takeN (n : Nat) (bs : Bytes) : M (Bytes × Bytes) :=
  if bs.length < n then throw .bufferSmall else pure (bs.take n, bs.drop n)

def rdWord (w : Nat) (bs : Bytes) : M (Nat × Bytes) := do
  let (a, r) ← takeN w bs
  pure (decLE a, r)

def rdWords (w : Nat) : Nat → Bytes → M (List Nat × Bytes)
  | 0, bs => pure ([], bs)
  | k + 1, bs => do
    let (v, r) ← rdWord w bs
    let (vs, r') ← rdWords w k r
    pure (v :: vs, r')

/-- `[tuple(row) for row in index.tolist()]` for an `(n, dims)` matrix stored row-major -/
def toRows (dims : Nat) : Nat → List Nat → List (List Nat)
  | 0, _ => []
  | n + 1, ws => ws.take dims :: toRows dims n (ws.drop dims)

/-- `rowid_lists[ptr : ptr + length]` for each length in turn (Python slices truncate) -/
def sliceBy : List Nat → List Nat → List (List Nat)
  | [], _ => []
  | l :: ls, ws => ws.take l :: sliceBy ls (ws.drop l)

/-- everything after the mapping step: a sequential parse of the mapped buffer (offset 16 on) -/
def parsePayload (buf : Bytes) : M (List Entry × Nat × Nat) := do
  let (dims, r) ← rdWord 1 buf
  let (n, r) ← rdWord 4 r
  let (wi, r) ← rdWord 1 r
  -- `struct.unpack_from(format(wi), buf, offset)` then `offset += wi`
  let (commonB, _) ← takeN (Gen.formatWidth wi) r
  let common := decLE commonB
  let (_, r) ← takeN wi r
  let iw := (Gen.wordDtype wi).itemsize
  let (ws, r) ← rdWords iw (n * dims) r
  let coords := toRows dims n ws
  let (wr, r) ← rdWord 1 r
  let rw := (Gen.wordDtype wr).itemsize
  -- lengths: ndarray of n words of dtype(wr); then `offset += n * wr`
  let (lens, _) ← rdWords rw n r
  let (_, r) ← takeN (n * wr) r
  let (ids, _) ← rdWords rw (r.length / rw) r
  let ids := if rw = 4 then ids else ids.map (· % 2^32)   -- `.astype(uint32)` when not already uint32
  let rows := sliceBy lens ids
  pure ((coords.zip rows).map (fun (c, r) => ⟨c, r⟩), common, rw)

/-- `IndxIO.load(f)`; returns entries in file order, common, row-id word size -/
def load (bs : Bytes) : M (List Entry × Nat × Nat) := do
  if bs.take 4 ≠ Gen.indxMagic then throw .header
  if (bs.drop 4).take 4 ≠ Gen.indxVersion then throw .version
  let szb := (bs.drop 8).take 8
  if szb.length < 8 then throw .structShort
  let size := decLE szb
  let blen := 16 + size
  if bs.length < blen then throw .mmapShort
  parsePayload ((bs.take blen).drop 16)

/-! ## the reader as a program

`Gen/IndxLoadGen.lean` (written by tools/translate_indx.py from the current `IndxIO.load`) lists every read of the loader
in source order as an `ROp`; `runR` executes such a list on the bytes of a file. -/

inductive RField | dims | count | wi | wr
deriving Repr, DecidableEq

inductive ROp
  | expectMagic          -- if f.read(4) != INDEXED_MAGIC: raise
  | expectVersion        -- if f.read(4) != VERSION: raise
  | headerSize           -- buffer_size = struct.unpack("<Q", f.read(8))[0]
  | map                  -- mmap of exactly 16 + buffer_size bytes; parsing continues at offset 16
  | unpack (w : Nat) (f : RField)   -- struct.unpack_from(<format of width w>, buf, offset)[0]; offset += w
  | unpackFmtCommon      -- common = unpack_from(IndxIO.format(index_word_size)); offset += index_word_size
  | matrix               -- ndarray (index_length, index_dimensions) of IndxIO.dtype(index_word_size); offset += nbytes
  | lengths              -- ndarray (len(all_coords),) of IndxIO.dtype(word_size); offset += len(lengths) * word_size
  | rest                 -- ndarray of int((buffer_length - offset) / itemsize) row-id words
  | slice                -- rowid_lists[ptr : ptr + length] per entry, forced to uint32
deriving Repr, DecidableEq

structure RSt where
  file : Bytes
  size : Nat := 0
  buf : Bytes := []
  dims : Nat := 0
  count : Nat := 0
  wi : Nat := 0
  wr : Nat := 0
  common : Nat := 0
  coords : List (List Nat) := []
  lens : List Nat := []
  ids : List Nat := []
  entries : List Entry := []

def RSt.set (st : RSt) (f : RField) (v : Nat) (r : Bytes) : RSt :=
  match f with
  | .dims => { st with dims := v, buf := r }
  | .count => { st with count := v, buf := r }
  | .wi => { st with wi := v, buf := r }
  | .wr => { st with wr := v, buf := r }

def stepR (st : RSt) : ROp → M RSt
  | .expectMagic => if st.file.take 4 ≠ Gen.indxMagic then throw .header else pure st
  | .expectVersion => if (st.file.drop 4).take 4 ≠ Gen.indxVersion then throw .version else pure st
  | .headerSize =>
      if ((st.file.drop 8).take 8).length < 8 then throw .structShort
      else pure { st with size := decLE ((st.file.drop 8).take 8) }
  | .map =>
      if st.file.length < 16 + st.size then throw .mmapShort
      else pure { st with buf := (st.file.take (16 + st.size)).drop 16 }
  | .unpack w f => do
      let (v, r) ← rdWord w st.buf
      pure (st.set f v r)
  | .unpackFmtCommon => do
      let (cb, _) ← takeN (Gen.formatWidth st.wi) st.buf
      let (_, r) ← takeN st.wi st.buf
      pure { st with common := decLE cb, buf := r }
  | .matrix => do
      let (ws, r) ← rdWords (Gen.wordDtype st.wi).itemsize (st.count * st.dims) st.buf
      pure { st with coords := toRows st.dims st.count ws, buf := r }
  | .lengths => do
      let (lens, _) ← rdWords (Gen.wordDtype st.wr).itemsize st.count st.buf
      let (_, r) ← takeN (st.count * st.wr) st.buf
      pure { st with lens := lens, buf := r }
  | .rest => do
      let (ids, _) ← rdWords (Gen.wordDtype st.wr).itemsize (st.buf.length / (Gen.wordDtype st.wr).itemsize) st.buf
      pure { st with ids := ids }
  | .slice =>
      let ids := if (Gen.wordDtype st.wr).itemsize = 4 then st.ids else st.ids.map (· % 2^32)
      pure { st with entries := (st.coords.zip (sliceBy st.lens ids)).map (fun (c, r) => ⟨c, r⟩) }

def runR (p : List ROp) (file : Bytes) : M (List Entry × Nat × Nat) := do
  let st ← p.foldlM stepR { file := file }
  pure (st.entries, st.common, (Gen.wordDtype st.wr).itemsize)

end Catii.Indx
