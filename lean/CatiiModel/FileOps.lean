/-!
# A file that is only appended to (the writer of `IndxIO.save`, C12)

`IndxIO.save` touches its file object through `f.write(bytes)`, `array.tofile(f)` and `f.tell()` only (the list of
its file operations is regenerated from the source on every run: `Gen.saveFileOps`).  All of them append at the end
of the file or do not change it.  Core Lean only.
-/
namespace Catii.FileOps

inductive FileOp
  | append (bytes : List Nat)      -- `f.write(b)` / `arr.tofile(f)`
  | tell                           -- `f.tell()`
deriving Repr, DecidableEq

def bytesOf : FileOp → List Nat
  | .append b => b
  | .tell => []

/-- the file after all operations -/
def contents (ops : List FileOp) : List Nat := ops.flatMap bytesOf

/-- what is in the file when the writer is stopped after `k` whole operations and `h` bytes of the next one
(a crash, a full disk, a killed process) -/
def interruptedAt (ops : List FileOp) (k h : Nat) : List Nat :=
  contents (ops.take k) ++ (match ops[k]? with
    | some op => (bytesOf op).take h
    | none => [])

end Catii.FileOps
