import CatiiModel.Agg
/-!
# Array-cube-only statistics (`xfuncs.py`: stddev, quantile, min/max, corrcoef, covariance)

All of them are computed *per bin*: the rows whose strided coordinate equals the flat index of the
cell are selected (`bins()` masks, or `bincount` by coordinates), and a per-bin functional is applied
(NumPy's `quantile`, `cov`, `corrcoef`, `amin/amax`, or the explicit variance / weighted-quantile
code).  `binRows` is that selection; `statCube Q` applies an arbitrary functional `Q` to it.
The explicit pieces of the code are modelled over `Rat`: the variance behind `stddev` (`varModel`),
its missing rule (`stddevMissing`) and the weighted quantile (`wquantile`).  Core Lean only.
-/
namespace Catii.Stats
open Catii.Cube Catii.Agg

/-- rows selected for the bin of cell `c`: `coordinates == flat(c)` -/
def binRows (vals : List (Nat → Nat)) (exts : List Nat) (N : Nat) (c : Cell) : List Nat :=
  (List.range N).filter fun r => flatIndex exts (vals.map (· r)) == flatIndex exts c

/-- rows of the cell, by definition -/
def cellRows (dims : List Dim) (N : Nat) (c : Cell) : List Nat :=
  (List.range N).filter fun r => (dims.zip c).all fun (d, v) => dense d r == v

/-- any per-bin statistic -/
def statCube {α : Type} (Q : List Nat → α) (vals : List (Nat → Nat)) (exts : List Nat) (N : Nat) (c : Cell) : α :=
  Q (binRows vals exts N c)

/-- `output_is_missing` of `xfunc_stddev.reduce`: fewer than two valid rows, or (unless ignored) a missing row -/
def stddevMissing (ignoreMissing : Bool) (valid missing : Nat) : Bool :=
  decide (valid < 2) || (!ignoreMissing && decide (missing ≠ 0))

/-- the squared value `xfunc_stddev` computes for a bin with valid rows `(x, w)` (weights 1 when unweighted):
`(Σ w (x - x̄_w)² / Σ w) · n/(n-1)` with `x̄_w = Σ w x / Σ w`; unweighted: `Σ (x - x̄)² / (n-1)` -/
def varModel (weighted : Bool) (xs : List (Rat × Rat)) : Rat :=
  let n : Rat := xs.length
  let sw := (xs.map (·.2)).sum
  let m := (xs.map fun p => p.2 * p.1).sum / sw
  let vs := (xs.map fun p => p.2 * (p.1 - m) * (p.1 - m)).sum
  if weighted then (vs / sw) * (n / (n - 1)) else vs / (n - 1)

/-- cumulative sums -/
def cumsum : List Rat → List Rat
  | [] => []
  | x :: xs => x :: (cumsum xs).map (· + x)

/-- the arithmetic of `weighted_quantile_1d` on sorted values `a` with weights `w` (same length, non-empty) -/
def wqCore (p : Rat) (a w : List Rat) : Rat :=
  let cs := cumsum w
  let prob := p * cs.getLastD 0
  let right := (cs.filter (· ≤ prob)).length          -- numpy.digitize(prob, cs)
  let left := right - 1
  let num := prob - cs.getD left 0
  let frac := (if num < 0 then 0 else num) / w.getD (min right (w.length - 1)) 0
  a.getD left 0 + frac * (a.getD (left + 1) 0 - a.getD left 0)   -- numpy.diff(a, append=[0])

/-- `weighted_quantile_1d` for the valid rows of a bin, already sorted by value: `(value, weight)` -/
def wquantile (p : Rat) (xs : List (Rat × Rat)) : Option Rat :=
  match xs with
  | [] => none
  | _ => some (wqCore p (xs.map (·.1)) (xs.map (·.2)))

end Catii.Stats
