import CatiiModel.Cube
/-!
# Aggregates (`ffuncs.py`, `xfuncs.py`): count, valid_count, sum, mean over exact rationals

Every aggregate is a small formula over three *measures* (sums of a per-row quantity over the rows
of a cell): the value measure, the count of valid rows and the count of missing rows.
The three cube types differ only in how a measure is obtained:

* `ccube`  — fill from the walk + marginal differencing (`Cube.measureCube`);
* `xcube`  — `numpy.bincount` over strided coordinates (`xMeasure`);
* direct   — the textbook per-cell sum (`Cube.directMeasure`).

`aggFrom` is the shared formula (the `reduce` methods), so "the three agree" reduces to "the
three measures agree".  One fact column at a time (the code treats columns independently).
Arithmetic is exact (`Rat`); the float64 rounding of the real code is outside the model.
Core Lean only.
-/
namespace Catii.Agg
open Catii.Cube

/-- a per-row variable: value and validity (`as_separate_validity`) -/
structure Col where
  vals : List Rat
  valid : List Bool
deriving Repr, Inhabited

inductive Weights
  | none
  | scalar (w : Rat) (valid : Bool)
  | rows (c : Col)
deriving Repr, Inhabited

inductive Func | count | validCount | sum | mean
deriving Repr, DecidableEq, Inhabited

/-- `return_missing_as`: NaN in place, `(sentinel, False)`, or a plain replacement value -/
inductive Ret | nan | pair (sentinel : Rat) | plain (v : Rat)
deriving Repr, Inhabited

def Ret.isPlainZero : Ret → Bool
  | .plain v => decide (v = 0)
  | _ => false

structure Spec where
  func : Func
  fact : Option Col := none
  weights : Weights := .none
  ignoreMissing : Bool := false
  ret : Ret := .nan
  /-- `numpy.isclose(x, 0)` threshold used after marginal differencing (1e-8 in ccube; xcube compares with 0 exactly) -/
  zeroTol : Rat := 0
deriving Repr, Inhabited

def Col.v (c : Col) (r : Nat) : Rat := c.vals.getD r 0
def Col.ok (c : Col) (r : Nat) : Bool := c.valid.getD r false

def wVal (w : Weights) (r : Nat) : Rat :=
  match w with
  | .none => 1
  | .scalar x ok => if ok then x else 0
  | .rows c => if c.ok r then c.v r else 0

def wOk (w : Weights) (r : Nat) : Bool :=
  match w with
  | .none => true
  | .scalar _ ok => ok
  | .rows c => c.ok r

def fOk (f : Option Col) (r : Nat) : Bool := match f with | some c => c.ok r | none => true
def fVal (f : Option Col) (r : Nat) : Rat := match f with | some c => c.v r | none => 1

/-- validity of a row for the aggregate: fact valid and weight valid -/
def rowOk (s : Spec) (r : Nat) : Bool :=
  match s.func with
  | .count => wOk s.weights r
  | _ => fOk s.fact r && wOk s.weights r

/-- the per-row value summed into the value region (`summables` / `countables` / `weights`) -/
def rowVal (s : Spec) (r : Nat) : Rat :=
  if !rowOk s r then 0 else
  match s.func with
  | .count => wVal s.weights r
  | .validCount => wVal s.weights r
  | .sum => fVal s.fact r * wVal s.weights r
  | .mean => fVal s.fact r * wVal s.weights r

/-- the per-row weight summed into the denominator of a mean (`countables`) -/
def rowDen (s : Spec) (r : Nat) : Rat := if rowOk s r then wVal s.weights r else 0

def ind (b : Bool) : Rat := if b then 1 else 0

def rabs (x : Rat) : Rat := if x < 0 then -x else x
def isClose0 (tol : Rat) (x : Rat) : Bool := decide (rabs x ≤ tol)

structure CellOut where
  value : Rat        -- meaningful only when not missing
  missing : Bool
deriving Repr, Inhabited, DecidableEq

/-- the `reduce` step for one cell, from the measures of that cell:
`a` value region, `v` valid rows, `m` missing rows, `den` weighted valid sum (mean) -/
def reduceCell (s : Spec) (a v m den : Rat) : CellOut :=
  let propagate : Bool := !s.ignoreMissing && decide (m ≠ 0)
  match s.func with
  | .count =>
    match s.weights with
    | .none => { value := a, missing := isClose0 s.zeroTol a }
    | _ => { value := a, missing := decide (v = 0) || propagate }
  | .validCount =>
    if s.ret.isPlainZero then
      -- documented shortcut (`return_missing_as == 0`): only the counts region exists; zeros are "replaced" by 0
      { value := if isClose0 s.zeroTol a then 0 else a, missing := false }
    else { value := a, missing := decide (v = 0) || propagate }
  | .sum => { value := a, missing := decide (v = 0) || propagate }
  | .mean =>
    let den' := if isClose0 s.zeroTol den then 0 else den
    { value := if den' = 0 then 0 else a / den', missing := decide (den' = 0) || propagate }

/-- what the caller sees in a cell under the chosen report format -/
def render (s : Spec) (c : CellOut) : Option Rat × Bool :=
  match s.ret with
  | .nan => (if c.missing then none else some c.value, !c.missing)            -- NaN where missing
  | .pair sentinel => (some (if c.missing then sentinel else c.value), !c.missing)
  | .plain v => (some (if c.missing then v else c.value), true)

/-- the shared formula: an aggregate from any way `meas` of computing per-cell measures -/
def aggFrom (s : Spec) (meas : (Nat → Rat) → Cell → Rat) (c : Cell) : CellOut :=
  reduceCell s (meas (rowVal s) c) (meas (fun r => ind (rowOk s r)) c)
    (meas (fun r => ind (!rowOk s r)) c) (meas (rowDen s) c)

/-- direct per-cell computation over the rows of each cell (the reference) -/
def directAgg (s : Spec) (dims : List Dim) (N : Nat) (c : Cell) : CellOut :=
  aggFrom { s with zeroTol := 0 } (fun μ c => directMeasure dims N μ c) c

/-- `ccube(dims, shape).<aggregate>(...)`: each region is a measure cube -/
def ccubeAgg (s : Spec) (dims : List Dim) (exts : List Nat) (N : Nat) : Except Err (Cell → CellOut) := do
  let ra ← measureCube dims exts N (rowVal s)
  let rv ← measureCube dims exts N (fun r => ind (rowOk s r))
  let rm ← measureCube dims exts N (fun r => ind (!rowOk s r))
  let rd ← measureCube dims exts N (rowDen s)
  pure fun c => reduceCell s (rget ra c) (rget rv c) (rget rm c) (rget rd c)

/-! ## xcube: strided coordinates and bincount -/

/-- `multipliers`: stride of each dimension = product of the later extents -/
def strides : List Nat → List Nat
  | [] => []
  | _ :: es => (es.foldl (· * ·) 1) :: strides es

/-- `reduce(operator.add, strided dims)`: the flat bin of a coordinate tuple -/
def flatIndex (exts : List Nat) (c : List Nat) : Nat :=
  ((strides exts).zip c).foldl (fun acc (p : Nat × Nat) => acc + p.1 * p.2) 0

/-- `numpy.bincount(coordinates, weights=μ, minlength=size)[flat(c)]` for dense dimension arrays `vals` -/
def xMeasure (vals : List (Nat → Nat)) (exts : List Nat) (N : Nat) (μ : Nat → Rat) (c : Cell) : Rat :=
  (((List.range N).filter fun r => flatIndex exts (vals.map (· r)) == flatIndex exts c).map μ).sum

def xcubeAgg (s : Spec) (vals : List (Nat → Nat)) (exts : List Nat) (N : Nat) (c : Cell) : CellOut :=
  aggFrom { s with zeroTol := 0 } (xMeasure vals exts N) c

end Catii.Agg
