/-! NumPy integer dtypes as used by catii (`fit_dtype`, INDX word sizes). Hand-written; core Lean only. -/
namespace Catii

inductive DT | i8 | i16 | i32 | i64 | u8 | u16 | u32 | u64
deriving DecidableEq, Repr, Inhabited

def DT.lo : DT → Int
  | .i8 => -2^7 | .i16 => -2^15 | .i32 => -2^31 | .i64 => -2^63
  | _ => 0
def DT.hi : DT → Int
  | .i8 => 2^7-1 | .i16 => 2^15-1 | .i32 => 2^31-1 | .i64 => 2^63-1
  | .u8 => 2^8-1 | .u16 => 2^16-1 | .u32 => 2^32-1 | .u64 => 2^64-1
def DT.signed : DT → Bool
  | .i8 | .i16 | .i32 | .i64 => true
  | _ => false
def DT.bits : DT → Nat
  | .i8 | .u8 => 8 | .i16 | .u16 => 16 | .i32 | .u32 => 32 | .i64 | .u64 => 64
def DT.itemsize (d : DT) : Nat := d.bits / 8
def DT.name : DT → String
  | .i8 => "int8" | .i16 => "int16" | .i32 => "int32" | .i64 => "int64"
  | .u8 => "uint8" | .u16 => "uint16" | .u32 => "uint32" | .u64 => "uint64"
def DT.all : List DT := [.i8, .i16, .i32, .i64, .u8, .u16, .u32, .u64]

/-- does the dtype represent `v` without wrap-around -/
def DT.contains (d : DT) (v : Int) : Bool := decide (d.lo ≤ v) && decide (v ≤ d.hi)

end Catii
