import CatiiModel.IIndex
import CatiiModel.Agg
/-!
# Cubes over multi-axis dimensions (`ccube.product`, `calculate`): a stack of one-axis cubes

`ccube.calculate` takes the Cartesian product of the dimensions' `slices1d()`, evaluates one
sub-cube per combination over the 1-D slices, and writes it into the block of the result selected by
the concatenated slice coordinates (`flattened_slice`): extra axes are outermost, in dimension order
and then axis order.  Core Lean only.
-/
namespace Catii.IIdx
open Catii.Cube

/-- a one-axis index with non-negative categories, as the cube sees it -/
def toDim (i : IIndex) : Dim := ⟨i.entries.map (fun e => ((val0 e.1).toNat, e.2)), i.common.toNat⟩

end Catii.IIdx

namespace Catii.Stack
open Catii.Cube Catii.Agg Catii.IIdx

/-- `itertools.product` of lists -/
def product {α : Type} : List (List α) → List (List α)
  | [] => [[]]
  | l :: ls => l.flatMap fun x => (product ls).map (x :: ·)

/-- block label (the `flattened_slice`) and the sub-cube evaluated for it -/
def stackAgg (s : Spec) (ixs : List IIndex) (exts : List Nat) (N : Nat) :
    List (List Int × Except Cube.Err (Cell → CellOut)) :=
  (product (ixs.map (·.slices))).map fun combo =>
    (combo.flatMap (·.1), ccubeAgg s (combo.map fun p => toDim p.2) exts N)

/-- `scaffold_shape`: extra extents in dimension order, then axis order -/
def scaffoldShape (ixs : List IIndex) : List Nat := ixs.flatMap (·.shape.drop 1)

end Catii.Stack
