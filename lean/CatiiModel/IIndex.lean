import CatiiModel.Kernels
import CatiiModel.Gen.FitDtype
/-!
# `iindex` (`src/catii/iindexes.py`): N-dimensional inverted index and its operations

`entries` is the dict `{(value, col, ...): sorted row ids}` as an insertion-ordered association
list (Python dict semantics: re-assigning a key keeps its position, a new key goes last).
Operations mirror the code statement by statement, including its error outcomes (`Except`).
Mutating methods return the new receiver.  NumPy pieces used by the code (`where`, `bincount`,
`unique`, boolean masks, fancy assignment, `append`, `concatenate`+`sort`) are inlined as list
functions.  Core Lean only.
-/
namespace Catii.IIdx
open Catii.Kern

abbrev Key := List Int          -- value :: higher coordinates
abbrev Rows := List Nat

structure IIndex where
  entries : List (Key × Rows)
  common : Int
  shape : List Nat
deriving Repr, DecidableEq, Inhabited

inductive Err
  | keyError (k : Int) | typeError (m : String) | valueError (m : String)
  | overflow (m : String) | indexError (m : String) | zeroDivision | scope (m : String)
deriving Repr, DecidableEq

abbrev M := Except Err

/-! ## dict primitives -/
def dget (es : List (Key × Rows)) (k : Key) : Option Rows := (es.find? (fun e => e.1 == k)).map (·.2)
def dhas (es : List (Key × Rows)) (k : Key) : Bool := es.any (fun e => e.1 == k)
def dset : List (Key × Rows) → Key → Rows → List (Key × Rows)
  | [], k, v => [(k, v)]
  | e :: es, k, v => if e.1 == k then (k, v) :: es else e :: dset es k v
def ddel (es : List (Key × Rows)) (k : Key) : List (Key × Rows) := es.filter (fun e => !(e.1 == k))

/-- `set_if(key, value)`: pop on `None`/empty, else assign -/
def setIf (es : List (Key × Rows)) (k : Key) (v : Option Rows) : List (Key × Rows) :=
  match v with
  | none => ddel es k
  | some [] => ddel es k
  | some r => dset es k r

def val0 (k : Key) : Int := k.headD 0
def prod (l : List Nat) : Nat := l.foldl (· * ·) 1
def IIndex.size (i : IIndex) : Nat := prod i.shape
def IIndex.nrows (i : IIndex) : Nat := i.shape.headD 0
def IIndex.ndim (i : IIndex) : Nat := i.shape.length

/-- generic counter with Python `defaultdict(int)` insertion order -/
def cadd (cs : List (Int × Int)) (k : Int) (n : Int) : List (Int × Int) :=
  match cs with
  | [] => [(k, n)]
  | c :: rest => if c.1 == k then (k, c.2 + n) :: rest else c :: cadd rest k n
def cset (cs : List (Int × Int)) (k : Int) (n : Int) : List (Int × Int) :=
  match cs with
  | [] => [(k, n)]
  | c :: rest => if c.1 == k then (k, n) :: rest else c :: cset rest k n

/-- `max([(v, k) for k, v in counts.items()])[1]`: largest count, ties to the larger value -/
def argmaxCount (cs : List (Int × Int)) : Option Int :=
  match cs with
  | [] => none
  | c :: rest =>
    some (rest.foldl (fun (best : Int × Int) x =>
      if x.2 > best.2 ∨ (x.2 = best.2 ∧ x.1 > best.1) then x else best) c).1

/-! ## common rows -/

/-- all higher-coordinate tuples of a shape tail, row-major -/
def hiCells : List Nat → List (List Int)
  | [] => [[]]
  | n :: ns => (List.range n).flatMap fun (j : Nat) => (hiCells ns).map ((j : Int) :: ·)

/-- rows not listed by any entry with higher coordinates `hi` (1-D: `hi = []`; 2-D: `hi = [col]`) -/
def commonRowidsHi (i : IIndex) (hi : List Int) : Rows :=
  (List.range i.nrows).filter (fun r => !(i.entries.any fun e => e.1.drop 1 == hi && e.2.contains r))

/-- `common_rowids(colindex)` for 1-D (`col = none`) and 2-D indexes -/
def commonRowids (i : IIndex) (col : Option Int) : Rows :=
  if i.ndim > 1 then
    match col with
    | some c => commonRowidsHi i [c]
    | none => List.range i.nrows          -- `coords[1] == None` never holds
  else commonRowidsHi i []

/-- the value `shift_common()` picks: the most frequent one (ties to the larger value) -/
def chooseCommon (i : IIndex) : Option Int :=
  let cs := i.entries.foldl (fun cs e => cadd cs (val0 e.1) e.2.length) ([] : List (Int × Int))
  let tot := (cs.map (·.2)).foldl (· + ·) 0
  argmaxCount (cset cs i.common ((i.size : Int) - tot))

/-- `shift_common(new_common)` -/
def shiftCommon (i : IIndex) (new : Option Int) : M IIndex := do
  let nc ← match new with
    | some v => pure v
    | none => match chooseCommon i with
      | some v => pure v
      | none => throw (.valueError "max() of empty")
  if nc == i.common then pure i else
  if i.ndim > 2 then throw (.scope "shift_common on a 3-D index") else
  -- materialise the old common rows, column by column (the mask is taken from the entries as they were)
  let es := (hiCells (i.shape.drop 1)).foldl (fun es hi =>
      let cr := commonRowidsHi i hi
      if cr.isEmpty then es else dset es (i.common :: hi) cr) i.entries
  pure { entries := es.filter (fun e => !(val0 e.1 == nc)), common := nc, shape := i.shape }

/-! ## array conversion -/

/-- a dense array: shape and flat row-major data -/
structure Arr where
  shape : List Nat
  data : List Int
deriving Repr, DecidableEq, Inhabited

def dtRange (d : DT) (v : Int) : Bool := d.contains v

/-- `output[rowids, col] = v`: one fancy-index assignment (`IndexError` on a row outside the array) -/
def scatRows (n ncols c : Nat) (v : Int) (rows : Rows) (out : Array Int) : M (Array Int) :=
  rows.foldlM (fun (o : Array Int) r =>
    if r ≥ n then throw (.indexError "row") else pure (o.set! (r * ncols + c) v)) out

/-- one entry of the scatter loop -/
def scatStep (ndim : Nat) (fits : Int → Bool) (n ncols : Nat) (out : Array Int) (e : Key × Rows × Int) :
    M (Array Int) :=
  if e.2.1.isEmpty then pure out else
  if !fits e.2.2 then throw (.overflow "entry value") else
  let col := if ndim > 1 then e.1.getD 1 0 else 0
  if ndim > 1 ∧ (col < 0 ∨ col ≥ (ncols : Int)) then throw (.indexError "column") else
  scatRows n ncols col.toNat e.2.2 e.2.1 out

def dtFits (dt : Option DT) (v : Int) : Bool := match dt with | some d => dtRange d v | none => true

/-! NumPy primitives the regenerated `to_array` (Gen/ToArrayGen.lean) is written in -/

/-- `numpy.full(shape, fill, dtype)` for a one- or two-axis shape, flat and row-major (`OverflowError` when the fill value
does not fit the dtype) -/
def npFull (shape : List Nat) (fill : Int) (dt : DT) : M (Array Int) :=
  if shape.length > 2 then throw (.scope "to_array on a 3-D index") else
  if !dtRange dt fill then throw (.overflow "fill value") else
  pure (Array.replicate (shape.headD 0 * (if shape.length > 1 then shape.getD 1 0 else 1)) fill)

/-- `output[rowids, col] = v` (`col = none`: `output[rowids] = v` on a one-axis array): an empty index array assigns and
converts nothing; otherwise the value must fit the dtype, the column and every row must exist -/
def npAssignRows (shape : List Nat) (dt : DT) (out : Array Int) (rows : Rows) (col : Option Int) (v : Int) : M (Array Int) :=
  if rows.isEmpty then pure out else
  if !dtRange dt v then throw (.overflow "entry value") else
  let ncols := if shape.length > 1 then shape.getD 1 0 else 1
  match col with
  | none => scatRows (shape.headD 0) ncols 0 v rows out
  | some c =>
    if c < 0 ∨ c ≥ (ncols : Int) then throw (.indexError "column") else scatRows (shape.headD 0) ncols c.toNat v rows out

/-- Python's `max(xs)` / `min(xs)` on a list (0 on the empty list, where Python raises; the callers pass non-empty lists) -/
def pyMax : List Int → Int
  | [] => 0
  | x :: xs => xs.foldl max x
def pyMin : List Int → Int
  | [] => 0
  | x :: xs => xs.foldl min x

/-- `numpy.full(shape, fill, dtype)` then scatter; `OverflowError` when a Python int does not fit -/
def scatter (i : IIndex) (fill : Int) (dt : Option DT) (vals : List (Key × Rows × Int)) : M Arr := do
  if i.ndim > 2 then throw (.scope "to_array on a 3-D index")
  if !dtFits dt fill then throw (.overflow "fill value")
  let ncols := if i.ndim > 1 then i.shape.getD 1 0 else 1
  let n := i.nrows
  let base : Array Int := Array.replicate (n * ncols) fill
  let out ← vals.foldlM (scatStep i.ndim (dtFits dt) n ncols) base
  pure { shape := i.shape, data := out.toList }

def lookup (m : List (Int × Int)) (k : Int) : Option Int := (m.find? (fun p => p.1 == k)).map (·.2)

def listMax (l : List Int) (d : Int) : Int := l.foldl max d
def listMin (l : List Int) (d : Int) : Int := l.foldl min d

/-- `mapping[coords[0]]` for one entry (`KeyError` when the value is not a key of the mapping) -/
def mapEntry (m : List (Int × Int)) (e : Key × Rows) : M (Key × Rows × Int) :=
  match lookup m (val0 e.1) with
  | some v => pure (e.1, e.2, v)
  | none => throw (.keyError (val0 e.1))

/-- `to_array(mapping, dtype)`; `dt = none` is the default dtype chosen by `fit_dtype` -/
def toArray (i : IIndex) (mapping : Option (List (Int × Int))) (dt : Option DT) : M Arr := do
  let mapping := match mapping with | some [] => none | m => m        -- `if not mapping`
  match mapping with
  | none =>
    let dvs := i.entries.map (fun e => val0 e.1) ++ [i.common]
    let dt' := match dt with
      | some d => d
      | none => fitDtype (listMax dvs i.common) (min (listMin dvs i.common) 0)
    scatter i i.common (some dt') (i.entries.map fun e => (e.1, e.2, val0 e.1))
  | some m =>
    let mv := m.map (·.2)
    let dt' := match dt with
      | some d => d
      | none => fitDtype (listMax mv (mv.headD 0)) (min (listMin mv (mv.headD 0)) 0)
    let vals ← i.entries.mapM (mapEntry m)
    scatter i ((lookup m i.common).getD 0) (some dt') vals

/-- column `c` of a 2-D array, or the array itself when 1-D -/
def Arr.ncols (a : Arr) : Nat := if a.shape.length > 1 then a.shape.getD 1 0 else 1
def Arr.nrows (a : Arr) : Nat := a.shape.headD 0
def Arr.at (a : Arr) (r c : Nat) : Int := a.data.getD (r * a.ncols + c) 0
def Arr.col (a : Arr) (c : Nat) : List Int := (List.range a.nrows).map (fun r => a.at r c)

/-- positions of `v` in a list (`numpy.where(col == v)[0]`) -/
def whereEq (l : List Int) (v : Int) : Rows :=
  (List.range l.length).filter (fun r => l.getD r 0 == v)

/-- `bincount`/`unique` counts: distinct values ascending with their counts -/
def insertSorted (v : Int) : List (Int × Int) → List (Int × Int)
  | [] => [(v, 1)]
  | c :: cs => if v < c.1 then (v, 1) :: c :: cs else if v == c.1 then (c.1, c.2 + 1) :: cs else c :: insertSorted v cs
def countValues (l : List Int) : List (Int × Int) := l.foldl (fun cs v => insertSorted v cs) []

structure FromOpts where
  counts : Option (List (Int × Int)) := none
  common : Option Int := none
  mapping : Option (List (Int × Int)) := none
deriving Repr, Inhabited

/-- merge helper: `entries[k] = union(entries.get(k), rows)` -/
def dunion (es : List (Key × Rows)) (k : Key) (rows : Rows) : List (Key × Rows) :=
  match dget es k with
  | none => dset es k rows
  | some old => dset es k (uni old rows)

def dappend (es : List (Key × Rows)) (k : Key) (r : Nat) : List (Key × Rows) :=
  match dget es k with
  | none => dset es k [r]
  | some old => dset es k (old ++ [r])

def mapVal (mapping : Option (List (Int × Int))) (v : Int) : M Int :=
  match mapping with
  | none => pure v
  | some m => match lookup m v with | some x => pure x | none => throw (.keyError v)

def Arr.twoD (a : Arr) : Bool := a.shape.length > 1
def Arr.cols (a : Arr) : List Nat := if a.twoD then List.range (a.shape.getD 1 0) else [0]
def Arr.key (a : Arr) (v : Int) (c : Nat) : Key := if a.twoD then [v, (c : Int)] else [v]

/-- one distinct value of the per-value `numpy.where` construction -/
def whereStep (a : Arr) (mapping : Option (List (Int × Int))) (common : Int)
    (es : List (Key × Rows)) (c : Int × Int) : M (List (Key × Rows)) :=
  match mapVal mapping c.1 with
  | .error e => .error e
  | .ok mv =>
    .ok (if mv == common then es else
      a.cols.foldl (fun es col =>
        let rows := whereEq (a.col col) c.1
        if rows.isEmpty then es else dunion es (a.key mv col) rows) es)

/-- the per-value `numpy.where` construction: for each distinct value (in `counts` order) and each
column, merge the matching rows under the (mapped) value -/
def buildWhere (a : Arr) (mapping : Option (List (Int × Int))) (common : Int)
    (counts : List (Int × Int)) : M (List (Key × Rows)) :=
  counts.foldlM (whereStep a mapping common) []

/-- one cell of the per-row scan construction -/
def scanStep (a : Arr) (mapping : Option (List (Int × Int))) (common : Int) (col : Nat)
    (es : List (Key × Rows)) (r : Nat) : M (List (Key × Rows)) :=
  match mapVal mapping (a.at r col) with
  | .error e => .error e
  | .ok mv => .ok (if mv == common then es else dappend es (a.key mv col) r)

/-- the per-row scan construction: column by column, row by row, append the row under its (mapped) value -/
def buildScan (a : Arr) (mapping : Option (List (Int × Int))) (common : Int) : M (List (Key × Rows)) :=
  a.cols.foldlM (fun es col => (List.range a.nrows).foldlM (scanStep a mapping common col) es) []

/-- `final_counts[mapping[dv]] += c` -/
def finalStep (mapping : Option (List (Int × Int))) (fc : List (Int × Int)) (c : Int × Int) : M (List (Int × Int)) := do
  pure (cadd fc (← mapVal mapping c.1) c.2)

def finalCountsOf (mapping : Option (List (Int × Int))) (counts : List (Int × Int)) : M (List (Int × Int)) :=
  match mapping with
  | none => pure counts
  | some _ => counts.foldlM (finalStep mapping) []

/-- common selection: caller's (mapped), else the first strict maximum in dict order, else the smallest
mapping target, else `ValueError` -/
def pickCommon (o : FromOpts) (finalCounts : List (Int × Int)) : M Int :=
  match o.common with
  | some c => mapVal o.mapping c
  | none =>
    match finalCounts with
    | c :: rest => pure (rest.foldl (fun (best : Int × Int) x => if x.2 > best.2 then x else best) c).1
    | [] => match o.mapping with
      | some (m :: ms) => pure (listMin ((m :: ms).map (·.2)) m.2)
      | _ => throw (.valueError "No values or common value provided.")

/-- the strategy switch: `values.size == 0 or len(counts) < 5`, else
`uncommon_ratio == 0 or (len(counts) / uncommon_ratio) < 100` (in exact arithmetic) -/
def useWhere (size : Nat) (counts finalCounts : List (Int × Int)) (common : Int) : M Bool :=
  if size = 0 ∨ counts.length < 5 then pure true
  else
    let tot := (finalCounts.map (·.2)).foldl (· + ·) 0
    let uncommon := tot - (lookup finalCounts common).getD 0
    if uncommon = 0 then pure true
    else pure (decide ((counts.length : Int) * size < 100 * uncommon))

/-- `iindex.from_array(values, counts, common, mapping)` for 1-D and 2-D integer arrays.
The `Bool` reports which construction path ran (`true` = per-value `numpy.where`). -/
def fromArray (a : Arr) (o : FromOpts) : M (IIndex × Bool) := do
  if a.shape.length = 0 ∨ a.shape.length > 2 then throw (.scope "from_array needs 1 or 2 axes")
  let counts := match o.counts with
    | some c => c
    | none => countValues a.data
  let finalCounts ← finalCountsOf o.mapping counts
  let common ← pickCommon o finalCounts
  let w ← useWhere (prod a.shape) counts finalCounts common
  let entries ← if w then buildWhere a o.mapping common counts else buildScan a o.mapping common
  pure ({ entries := entries, common := common, shape := a.shape }, w)

/-! ## transformed copies and combination -/

def copy (i : IIndex) : IIndex := i

/-- `new_rowids[mask] = arange(new_length)` read at a masked position: the number of kept rows before it -/
def rankIn (mask : List Bool) (r : Nat) : Nat := ((mask.take r).filter id).length

/-- `new_rowids[rowids[mask[rowids]]]` -/
def filterRows (mask : List Bool) (rows : Rows) : Rows :=
  (rows.filter (fun r => mask.getD r false)).map (rankIn mask)

/-- `new_rowids = numpy.empty(len(mask)); new_rowids[mask] = numpy.arange(count(mask))`: the kept rows numbered in order (what
sits at the other positions is never read; here it is the same count) -/
def maskedArange (mask : List Bool) : List Nat := (List.range mask.length).map (rankIn mask)

/-- `a[m]` for a boolean array `m` of the same length -/
def boolIndex {α : Type} : List α → List Bool → List α
  | a :: as, b :: bs => if b then a :: boolIndex as bs else boolIndex as bs
  | _, _ => []

/-- the receiver of `filtered` just before the final `shift_common()` -/
def filteredPre (i : IIndex) (mask : List Bool) (newLength : Nat) : IIndex :=
  let es := i.entries.foldl (fun es (e : Key × Rows) =>
      let kept := filterRows mask e.2
      if kept.isEmpty then es else dset es e.1 kept) []
  { entries := es, common := i.common, shape := newLength :: i.shape.drop 1 }

/-- `filtered(mask, new_length)` -/
def filtered (i : IIndex) (mask : List Bool) (newLength : Nat) : M IIndex := do
  if (mask.filter id).length ≠ newLength then throw (.valueError "mask/new_length mismatch")
  -- `mask[rowids]` raises for a row id beyond the mask
  if i.entries.any (fun e => e.2.any (fun r => r ≥ mask.length)) then throw (.indexError "row id beyond mask")
  shiftCommon (filteredPre i mask newLength) none

inductive Order | all | one (k : Int) | list (ks : List Int)
deriving Repr, DecidableEq

def indexOf (l : List Int) (v : Int) : Option Nat :=
  (List.range l.length).find? (fun j => l.getD j 0 == v)

/-- the new coordinates of a key under the orders, `none` when the entry is not selected: walk the higher axes,
keep a coordinate (`None`), require and drop it (an int), or replace it by its position in the order list -/
def sliceGo (k : Key) : Nat → List Order → List Int → Option (List Int)
  | _, [], acc => some acc
  | j, o :: rest, acc =>
    let coord := k.getD (j + 1) 0
    match o with
    | .all => sliceGo k (j + 1) rest (acc ++ [coord])
    | .one c => if coord == c then sliceGo k (j + 1) rest acc else none
    | .list ks => match indexOf ks coord with
      | some p => sliceGo k (j + 1) rest (acc ++ [(p : Int)])
      | none => none

/-- the higher extents after slicing: an axis is kept (`None`), dropped (an int) or gets the length of the order list -/
def sliceTail : List Order → List Nat → List Nat
  | [], _ => []
  | o :: os, ext =>
    match o with
    | .all => ext.headD 0 :: sliceTail os ext.tail
    | .one _ => sliceTail os ext.tail
    | .list ks => ks.length :: sliceTail os ext.tail

def sliceShape (i : IIndex) (orders : List Order) : List Nat := i.nrows :: sliceTail orders (i.shape.drop 1)

/-- one entry of `sliced`: kept under its new key, or dropped -/
def sliceStep (orders : List Order) (es : List (Key × Rows)) (e : Key × Rows) : List (Key × Rows) :=
  match sliceGo e.1 0 orders [val0 e.1] with
  | some k => dset es k e.2
  | none => es

/-- `sliced(*orders)` -/
def sliced (i : IIndex) (orders : List Order) : M IIndex :=
  if orders.isEmpty then pure i else
  if orders.length > i.ndim - 1 then throw (.typeError "Cannot slice") else
  pure { entries := i.entries.foldl (sliceStep orders) [], common := i.common, shape := sliceShape i orders }

/-- one bucket of `slices1d`: the entries whose last coordinate is `coord`, with that coordinate removed -/
def bucket (i : IIndex) (coord : Nat) : IIndex :=
  { entries := i.entries.foldl (fun es (e : Key × Rows) =>
      if e.1.getLastD 0 == (coord : Int) then dset es e.1.dropLast e.2 else es) [],
    common := i.common, shape := i.shape.dropLast }

/-- `slices1d()`: list of `(higher coordinates, 1-D slice)` in the order the generator yields them -/
def slices1d : Nat → IIndex → List Int → List (List Int × IIndex)
  | 0, i, base => [(base, i)]
  | fuel + 1, i, base =>
    if i.shape.length > 1 then
      (List.range (i.shape.getLastD 0)).flatMap fun (coord : Nat) =>
        slices1d fuel (bucket i coord) ((coord : Int) :: base)
    else [(base, i)]

def IIndex.slices (i : IIndex) : List (List Int × IIndex) := slices1d i.shape.length i []

/-- sorted merge with duplicates removed (`concatenate; sort; mask[1:] = rowids[1:] != rowids[:-1]`) -/
def sortDedup (ls : List Rows) (dedup : Bool) : Rows :=
  let all := ls.flatten
  let sorted := all.mergeSort
  if dedup then sorted.eraseDups else sorted

/-- the value mapping of `reindexed`: the caller's, or the default (the k-th smallest listed value ↦ k) -/
def reMapping (i : IIndex) (mapping : Option (List (Int × Int))) : List (Int × Int) :=
  match mapping with
  | some m => m
  | none =>
    let vs := (i.entries.map (fun e => val0 e.1)).mergeSort.eraseDups
    (List.range vs.length).map fun j => (vs.getD j 0, (j : Int))

/-- `mapping.get(v, v)` -/
def reVal (m : List (Int × Int)) (v : Int) : Int := (lookup m v).getD v

/-- the key an entry moves to: its value mapped, its higher coordinates kept -/
def reKey (m : List (Int × Int)) (k : Key) : Key :=
  match lookup m (val0 k) with
  | some nv => nv :: k.drop 1
  | none => k

/-- one entry of the gathering loop: skip what lands on the new common value, else collect the row-id list under
the new key; the flag records that something was merged or dropped -/
def gatherStep (m : List (Int × Int)) (newCommon : Int) (acc : List (Key × List Rows) × Bool) (e : Key × Rows) :
    List (Key × List Rows) × Bool :=
  let k := reKey m e.1
  if val0 k == newCommon then (acc.1, true) else
  match acc.1.find? (fun g => g.1 == k) with
  | some _ => (acc.1.map (fun g => if g.1 == k then (g.1, g.2 ++ [e.2]) else g), true)
  | none => (acc.1 ++ [(k, [e.2])], acc.2)

/-- one new entry: a single list as it is, several concatenated, sorted and (unless told otherwise) de-duplicated -/
def mergeGroup (assumeUnique : Bool) (g : Key × List Rows) : Key × Rows :=
  match g.2 with
  | [single] => (g.1, single)
  | many => (g.1, sortDedup many (!assumeUnique))

/-- the result of `reindexed` before the optional re-normalisation, and the `merged` flag -/
def reindexedPre (i : IIndex) (m : List (Int × Int)) (assumeUnique : Bool) : IIndex × Bool :=
  let newCommon := reVal m i.common
  let gm := i.entries.foldl (gatherStep m newCommon) ([], false)
  ({ entries := gm.1.map (mergeGroup assumeUnique), common := newCommon, shape := i.shape }, gm.2)

/-- `reindexed(mapping, copy, shift, assume_unique)` -/
def reindexed (i : IIndex) (mapping : Option (List (Int × Int))) (shift : Bool := true)
    (assumeUnique : Bool := false) : M IIndex :=
  let pre := reindexedPre i (reMapping i mapping) assumeUnique
  if shift ∧ pre.2 then shiftCommon pre.1 none else pure pre.1

/-- `output[rowids] = v` -/
def colSetRows (numrows : Nat) (a : Array Int) (rows : Rows) (v : Int) : M (Array Int) :=
  rows.foldlM (fun a r => if r ≥ numrows then throw (.indexError "row") else pure (a.set! r v)) a

/-- `common_count[rowids] -= 1` -/
def colDec (numrows : Nat) (a : Array Int) (rows : Rows) : M (Array Int) :=
  rows.foldlM (fun a r => if r ≥ numrows then throw (.indexError "row") else pure (a.set! r (a.getD r 0 - 1))) a

/-- the gathering loop of `collapsed`: (mapped) value ↦ row-id lists in entry order, the new common value skipped -/
def colGather (mp : Int → Int) (newCommon : Int) (g : List (Int × List Rows)) (e : Key × Rows) : List (Int × List Rows) :=
  let nc := mp (val0 e.1)
  if nc == newCommon then g else
  match g.find? (fun p => p.1 == nc) with
  | some _ => g.map (fun p => if p.1 == nc then (p.1, p.2 ++ [e.2]) else p)
  | none => g ++ [(nc, [e.2])]

/-- one row-id list of a listed precedence value: write the value; count the cells down until the common value
has been written -/
def colInner (numrows : Nat) (coord : Int) (st : Array Int × Array Int × Bool) (rows : Rows) :
    M (Array Int × Array Int × Bool) := do
  let out' ← colSetRows numrows st.1 rows coord
  let cc' ← if !st.2.2 then colDec numrows st.2.1 rows else pure st.2.1
  pure (out', cc', st.2.2)

/-- one precedence value, lowest precedence first -/
def colStep (numrows : Nat) (dt : DT) (newCommon : Int) (gget : Int → List Rows)
    (st : Array Int × Array Int × Bool) (coord : Int) : M (Array Int × Array Int × Bool) :=
  if coord == newCommon then
    pure ((List.range numrows).foldl (fun (o : Array Int) r =>
      if st.2.1.getD r 0 != 0 then o.set! r coord else o) st.1, st.2.1, true)
  else
    if !dt.contains coord then throw (.overflow "precedence value") else
    (gget coord).foldlM (colInner numrows coord) st

/-- `common_count[rowids] -= 1` for each row-id list of one value -/
def colDecAll (numrows : Nat) (cc : Array Int) (ls : List Rows) : M (Array Int) := ls.foldlM (colDec numrows) cc

/-- a gathered value `precedence` does not mention: its cells are not common cells either -/
def colUnlisted (numrows : Nat) (precedence : List Int) (cc : Array Int) (p : Int × List Rows) : M (Array Int) :=
  if precedence.contains p.1 then pure cc else colDecAll numrows cc p.2

/-- `common_count`: per row, the number of cells not yet known to hold something other than the common value.
`head` is `precedence[:-1]` with every value kept where it is listed first. -/
def colCounts (numrows numcols : Nat) (track : Bool) (gathered : List (Int × List Rows)) (gget : Int → List Rows)
    (precedence head : List Int) (default : Int) : M (Array Int) := do
  let cc0 : Array Int := Array.replicate numrows (numcols : Int)
  if track then do
    let cc1 ← if head.contains default then pure cc0 else colDecAll numrows cc0 (gget default)
    gathered.foldlM (colUnlisted numrows precedence) cc1
  else pure cc0

/-- value ↦ its gathered row-id lists (`gathered.get(coord, [])`) -/
def ggetOf (gathered : List (Int × List Rows)) (c : Int) : List Rows :=
  ((gathered.find? (fun p => p.1 == c)).map (·.2)).getD []

/-- the per-row output of `collapsed` -/
def collapseCore (numrows numcols : Nat) (dt : DT) (newCommon : Int) (gathered : List (Int × List Rows))
    (precedence head : List Int) (default : Int) : M (Array Int) := do
  let track := default != newCommon || head.contains newCommon
  let cc ← colCounts numrows numcols track gathered (ggetOf gathered) precedence head default
  let st ← (head.reverse).foldlM (colStep numrows dt newCommon (ggetOf gathered))
    (Array.replicate numrows default, cc, !track)
  pure st.1

/-- the value mapping of `collapsed` / `reindexed`-style lookups: `mapping.get(v, v)` -/
def mapGet (mapping : Option (List (Int × Int))) (v : Int) : Int :=
  match mapping with
  | none => v
  | some m => (lookup m v).getD v

/-- `collapsed(precedence, mapping)` -/
def collapsed (i : IIndex) (precedence : List Int) (mapping : Option (List (Int × Int))) : M IIndex :=
  if i.shape.length < 2 then throw (.typeError "Cannot collapse: no column axis") else
  let newCommon := mapGet mapping i.common
  let numrows := i.shape.getD 0 0
  let numcols := i.shape.getD 1 0
  if numrows = 0 then pure { entries := [], common := newCommon, shape := [0] } else
  match precedence.getLast? with
  | none => throw (.valueError "max() of empty precedence")
  | some default =>
  -- gathered: (possibly mapped) coordinate -> list of row-id lists, in entry order
  let gathered : List (Int × List Rows) := i.entries.foldl (colGather (mapGet mapping) newCommon) []
  let dt := fitDtype (listMax precedence (precedence.headD 0)) (min (listMin precedence (precedence.headD 0)) 0)
  if !dt.contains default then throw (.overflow "precedence value") else do
  -- a value listed more than once counts where it is listed first
  let head := precedence.dropLast.eraseDups
  let out ← collapseCore numrows numcols dt newCommon gathered precedence head default
  let r ← fromArray { shape := [numrows], data := out.toList } {}
  pure r.1

/-- `self[key] = shifted_rowids` or `numpy.append(self[key], shifted_rowids)` -/
def addRows (es : List (Key × Rows)) (k : Key) (rows : Rows) : List (Key × Rows) :=
  match dget es k with
  | none => dset es k rows
  | some old => dset es k (old ++ rows)

/-- `new_rowids.astype(uint32) + uint32(old_numrows)` -/
def shiftRows (oldN : Nat) (rows : Rows) : Rows := rows.map fun r => (r + oldN) % 2^32

/-- the receiver of `append(other)` just before the final `shift_common()` -/
def appendPre (i other : IIndex) : IIndex :=
  let oldN := i.nrows
  let es := other.entries.foldl (fun es (e : Key × Rows) =>
    if val0 e.1 != i.common then addRows es e.1 (shiftRows oldN e.2) else es) i.entries
  let es :=
    if other.common != i.common then
      -- rows holding other's common value, column by column (1-D: the single "column" `[]`)
      (hiCells (i.shape.drop 1)).foldl (fun es hi =>
        let cr := shiftRows oldN (commonRowidsHi other hi)
        if cr.isEmpty then es else addRows es (other.common :: hi) cr) es
    else es
  { entries := es, common := i.common, shape := (oldN + other.nrows) :: i.shape.drop 1 }

/-- `append(other)` -/
def append (i other : IIndex) : M IIndex :=
  if i.ndim > 2 then throw (.scope "append on a 3-D index") else
  shiftCommon (appendPre i other) none

def liftK {α : Type} (x : Kern.M α) : M α :=
  match x with | .ok v => pure v | .error _ => throw (.indexError "kernel out-of-bounds access")

/-- `union_update(other_entries)` -/
def unionUpdate (i : IIndex) (other : List (Key × Rows)) : M IIndex := do
  let es ← other.foldlM (fun es (e : Key × Rows) => do
    let r ← liftK (Kern.unionW ((dget es e.1).map List.toArray) (some e.2.toArray))
    pure (setIf es e.1 (r.map Array.toList))) i.entries
  pure { i with entries := es }

def intersectionUpdate (i : IIndex) (other : List (Key × Rows)) : M IIndex := do
  let es0 := i.entries.filter (fun e => dhas other e.1)
  let es ← other.foldlM (fun es (e : Key × Rows) => do
    let r ← liftK (Kern.intersectionW ((dget es e.1).map List.toArray) (some e.2.toArray))
    pure (setIf es e.1 (r.map Array.toList))) es0
  pure { i with entries := es }

def differenceUpdate (i : IIndex) (other : List (Key × Rows)) : M IIndex := do
  let es ← other.foldlM (fun es (e : Key × Rows) => do
    let r ← liftK (Kern.differenceW ((dget es e.1).map List.toArray) (some e.2.toArray))
    pure (setIf es e.1 (r.map Array.toList))) i.entries
  pure { i with entries := es }


/-- `other_cell_mask[(new_rowids,) + coords[1:]]`: is cell `(r, k[1:])` assigned by the update? -/
def updHit (ents : List (Key × Rows)) (k : Key) (r : Nat) : Bool :=
  ents.any (fun e => e.1.drop 1 == k.drop 1 && e.2.contains r)

/-- first pass of `update`: remove the old association of every overwritten cell -/
def updMask (i : IIndex) (ents : List (Key × Rows)) : List (Key × Rows) :=
  i.entries.foldl (fun (es : List (Key × Rows)) (e : Key × Rows) =>
    let keep := e.2.filter (fun r => !updHit ents e.1 r)
    if keep.length = e.2.length then es
    else if keep.isEmpty then ddel es e.1 else dset es e.1 keep) i.entries

/-- `update(entries)`: mask out overwritten cells, then union in the new ones -/
def update (i : IIndex) (ents : List (Key × Rows)) : M IIndex :=
  -- fancy indexing of the mask raises for a row id or a key that does not fit the shape
  if ents.any (fun e => e.2.any (fun r => r ≥ i.nrows)) then throw (.indexError "update row id") else
  if ents.any (fun e => e.1.length != i.ndim) then throw (.indexError "update key arity") else
  unionUpdate { i with entries := updMask i ents } (ents.filter (fun e => val0 e.1 != i.common))

/-- number of columns an input contributes to `column_stack` -/
def stackWidth (x : IIndex) : Nat := if x.ndim > 1 then x.shape.getD 1 0 else 1

/-- the entries of one (already shifted) input, re-keyed into the stacked column space at offset `off` -/
def stackKeys (x : IIndex) (off : Nat) : List (Key × Rows) :=
  x.entries.map fun e => ([val0 e.1, (if x.ndim > 1 then e.1.getD 1 0 else 0) + (off : Int)], e.2)

/-- one input of `column_stack`: shift it to the common value of the stack, then add its entries -/
def stackStep (nc : Int) (acc : List (Key × Rows) × Nat) (x : IIndex) : M (List (Key × Rows) × Nat) := do
  let x' ← if x.common != nc then shiftCommon x (some nc) else pure x
  pure ((stackKeys x' acc.2).foldl (fun es e => dset es e.1 e.2) acc.1, acc.2 + stackWidth x')

/-- the common value of the stack: the caller's, or the one with the largest summed sparsity x columns
(exact fractions, compared by cross-multiplying; ties to the larger value) -/
def stackCommon (ixs : List IIndex) (newCommon : Option Int) : M Int :=
  match newCommon with
    | some c => pure c
    | none =>
      -- sparsity * columns, as the exact fraction (100 * n_common * cols) / numcells; compare by cross-multiplying
      let sp (x : IIndex) : Int × Int :=     -- numerator, denominator (> 0)
        let cells := x.size
        let cols := if x.ndim > 1 then x.shape.getD 1 0 else 1
        if cells = 0 then (0, 1) else
        (100 * ((cells : Int) - ((x.entries.map (·.2.length)).foldl (· + ·) 0 : Nat)) * cols, cells)
      let addF (a b : Int × Int) : Int × Int := (a.1 * b.2 + b.1 * a.2, a.2 * b.2)
      let tbl : List (Int × (Int × Int)) := ixs.foldl (fun t x =>
        match t.find? (fun p => p.1 == x.common) with
        | some _ => t.map (fun p => if p.1 == x.common then (p.1, addF p.2 (sp x)) else p)
        | none => t ++ [(x.common, sp x)]) []
      let gt (a b : Int × (Int × Int)) : Bool :=   -- (s_a, c_a) > (s_b, c_b)
        let l := a.2.1 * b.2.2
        let r := b.2.1 * a.2.2
        decide (l > r) || (decide (l = r) && decide (a.1 > b.1))
      match tbl with
      | [] => throw (.indexError "empty")
      | t :: ts => pure (ts.foldl (fun best x => if gt x best then x else best) t).1

/-- `column_stack(iindexes, new_common, copy)`; sparsities in exact arithmetic -/
def columnStack (ixs : List IIndex) (newCommon : Option Int) : M IIndex := do
  match ixs with
  | [] => throw (.indexError "column_stack of nothing")
  | first :: _ =>
  if ixs.any (fun x => x.nrows ≠ first.nrows) then
    throw (.valueError "Cannot column_stack indexes with different number of rows.")
  let nc ← stackCommon ixs newCommon
  let (es, total) ← ixs.foldlM (stackStep nc) ([], 0)
  pure { entries := es, common := nc, shape := [first.nrows, total] }

/-- `numpy.setxor1d(a, b)` up to order: the values in exactly one of the two (only its length is used by `__eq__`) -/
def setxor1d (a b : Rows) : Rows := (a.filter fun r => !b.contains r) ++ (b.filter fun r => !a.contains r)

/-- `__eq__`: shape, common, number of entries, and each entry equal as a set
(`len(setxor1d(rowids, other.get(coords, []))) == 0`) -/
def eqIdx (a b : IIndex) : Bool :=
  a.shape == b.shape && a.common == b.common && a.entries.length == b.entries.length &&
  a.entries.all (fun e =>
    let o := (dget b.entries e.1).getD []
    e.2.all (fun r => o.contains r) && o.all (fun r => e.2.contains r))

/-- `f(*args)` for a function of one optional argument: the first of `args`, if any -/
def starArg : List Int → Option Int
  | [] => none
  | c :: _ => some c

/-- `get(key, default=None, force)` for 1-D/2-D indexes -/
def getKey (i : IIndex) (k : Key) (force : Bool) : Option Rows :=
  if force && val0 k == i.common then
    let cr := commonRowids i (if i.ndim > 1 then some (k.getD 1 0) else none)
    if cr.isEmpty then none else some cr
  else dget i.entries k

/-- `items(force=True)`: explicit entries, then the common rows (per column) -/
def itemsForce (i : IIndex) : List (Key × Rows) :=
  if i.ndim = 1 then i.entries ++ [([i.common], commonRowids i none)]
  else i.entries ++ (List.range (i.shape.getD 1 0)).map fun (c : Nat) =>
    ([i.common, (c : Int)], commonRowids i (some (c : Int)))

def abscissae (i : IIndex) : List Int :=
  let seen := (i.entries.map (fun e => val0 e.1)).eraseDups
  let listed := (i.entries.map (·.2.length)).foldl (· + ·) 0
  if i.size > listed ∧ !seen.contains i.common then seen ++ [i.common] else seen

/-! ## well-formedness (the C07 predicate) and the dense abstraction -/

def sortedStrict : List Nat → Bool
  | [] => true
  | [_] => true
  | a :: b :: rest => decide (a < b) && sortedStrict (b :: rest)

/-- insert into a strictly increasing list, keeping it so (a value already present is not repeated) -/
def insertUniq (a : Nat) : List Nat → List Nat
  | [] => [a]
  | b :: bs => if a < b then a :: b :: bs else if a = b then b :: bs else b :: insertUniq a bs

/-- `numpy.unique`: the distinct values in increasing order -/
def npUnique (l : List Nat) : List Nat := l.foldr insertUniq []

/-- what `validate(check_comprehensive_unique=True)` checks (dtype aside): no entry under the
common value, row ids strictly increasing, no row under two values of the same higher coordinates -/
def validates (i : IIndex) : Bool :=
  i.entries.all (fun e => val0 e.1 != i.common && sortedStrict e.2) &&
  i.entries.all (fun e => i.entries.all (fun f =>
    !(val0 e.1 != val0 f.1 && e.1.drop 1 == f.1.drop 1) || e.2.all (fun r => !f.2.contains r)))

def keysDistinct : List Key → Bool
  | [] => true
  | k :: ks => !ks.contains k && keysDistinct ks

/-- the full C07 predicate: `validates` plus what the validator does not check — row ids below
the row count (and below 2^32), key arity and higher coordinates within the shape, no empty
entry, distinct keys -/
def wf (i : IIndex) : Bool :=
  decide (0 < i.ndim) && validates i &&
  i.entries.all (fun e =>
    e.1.length == i.ndim && !e.2.isEmpty && e.2.all (fun r => decide (r < i.nrows) && decide (r < 2^32)) &&
    (List.range (i.ndim - 1)).all (fun j => decide (0 ≤ e.1.getD (j + 1) 0) &&
      decide (e.1.getD (j + 1) 0 < (i.shape.getD (j + 1) 0 : Int)))) &&
  keysDistinct (i.entries.map (·.1))

/-- value at a cell `row :: higher coordinates`: the value of the first entry listing it, else common -/
def denseAt (i : IIndex) (row : Nat) (hi : List Int) : Int :=
  match i.entries.find? (fun e => e.1.drop 1 == hi && e.2.contains row) with
  | some e => val0 e.1
  | none => i.common

/-- the dense array an index stands for (any number of axes), flat row-major -/
def denseArr (i : IIndex) : Arr :=
  { shape := i.shape,
    data := (List.range i.nrows).flatMap fun r => (hiCells (i.shape.drop 1)).map fun hi => denseAt i r hi }

end Catii.IIdx
