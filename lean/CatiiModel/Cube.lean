import CatiiModel.Kernels
/-!
# ccube core (`src/catii/ccubes.py`, `ffuncs.ffunc_count`): walk, fill, marginal differencing

One-axis dimensions only (a cube over multi-axis dimensions is a stack of these, see `Stack`).
`walk` mirrors the four branches of `ccube._walk` (first dim / running set, inner / last dim);
the running set `None` is `Option.none`; the `-1` margin coordinate is `Option.none` in `Co`
and the index `extent` (NumPy's `-1` of a working axis of length `extent + 1`) in a `Cell`.
Regions are association tables from working cells to values; a marginal pass along axis `k` is
`R'(c) = if c_k = common_k then R(c[k:=margin]) - Σ_{j<extent_k} R(c[k:=j]) else R(c)` —
what `region[common_slice] = region[margin_slice] - region[uncommon_slice].sum(axis)` does
(right-hand side evaluated before the assignment).  Core Lean only.
-/
namespace Catii.Cube
open Catii.Kern

abbrev Rows := List Nat

/-- a one-axis index dimension: uncommon entries `(category, sorted row ids)` and the common category -/
structure Dim where
  entries : List (Nat × Rows)
  common : Nat
deriving Repr, DecidableEq, Inhabited

abbrev Co := List (Option Nat)      -- walk coordinates; none = the -1 margin marker
abbrev Cell := List Nat

/-- mirrors `ccube._walk` with the callbacks abstracted to "emit (coords, rowids)" -/
def walk : List Dim → Co → Option Rows → List (Co × Rows)
  | [], _, _ => []
  | [d], base, none =>
      d.entries.filterMap fun e => if e.2 ≠ [] then some (base ++ [some e.1], e.2) else none
  | [d], base, some b =>
      (d.entries.filterMap fun e =>
        let x := inter b e.2
        if x ≠ [] then some (base ++ [some e.1], x) else none)
      ++ (if b ≠ [] then [(base ++ [none], b)] else [])
  | d :: d' :: ds, base, none =>
      (d.entries.flatMap fun e => walk (d' :: ds) (base ++ [some e.1]) (some e.2))
      ++ walk (d' :: ds) (base ++ [none]) none
  | d :: d' :: ds, base, some b =>
      (d.entries.flatMap fun e =>
        let x := inter b e.2
        if x ≠ [] then walk (d' :: ds) (base ++ [some e.1]) (some x) else [])
      ++ walk (d' :: ds) (base ++ [none]) (some b)

/-- `ccube(dims).interactions()` -/
def interactions (dims : List Dim) : List (Co × Rows) := walk dims [] none

/-! ## dense semantics (the specification side) -/

def rowsOf (d : Dim) (c : Nat) : Rows :=
  match d.entries.find? (fun e => e.1 == c) with
  | some e => e.2
  | none => []

/-- the category of row `r`: the key of the first entry listing `r`, else the common category -/
def dense (d : Dim) (r : Nat) : Nat :=
  match d.entries.find? (fun e => e.2.contains r) with
  | some e => e.1
  | none => d.common

/-- brute-force contingency count of a cell over `N` rows -/
def brute (dims : List Dim) (N : Nat) (c : Cell) : Nat :=
  ((List.range N).filter fun r => (dims.zip c).all fun (d, v) => dense d r == v).length

/-- `max([coords[0] for coords in d] + [d.common]) + 1` -/
def inferExtent (d : Dim) : Nat := (d.entries.map (·.1)).foldl max d.common + 1

/-! ## regions -/

abbrev Region (α : Type) := List (Cell × α)

def rget {α : Type} [Zero α] (r : Region α) (c : Cell) : α :=
  match r.find? (fun p => p.1 == c) with
  | some p => p.2
  | none => 0

/-- assignment `region[c] = v` (the latest write wins) -/
def rput {α : Type} (r : Region α) (c : Cell) (v : α) : Region α := (c, v) :: r

/-- all cells of a box with the given per-axis lengths -/
def allCells : List Nat → List Cell
  | [] => [[]]
  | n :: ns => (List.range n).flatMap fun i => (allCells ns).map (i :: ·)

def materialise {α : Type} (f : Cell → α) (cells : List Cell) : Region α := cells.map fun c => (c, f c)

/-- working-array cell of walk coordinates: `-1` is the last index of an axis of length `extent+1` -/
def cellOf (exts : List Nat) (co : Co) : Cell := List.zipWith (fun e o => o.getD e) exts co

inductive Err | indexError (cell : Cell) | shape (m : String)
deriving Repr, DecidableEq

/-- `counts[x_coords] = len(x_rowids)` for each walk item, in walk order -/
def fillCount (exts : List Nat) : List (Co × Rows) → Region Int → Except Err (Region Int)
  | [], r => pure r
  | it :: rest, r =>
    let cell := cellOf exts it.1
    if (exts.zip cell).all (fun (e, v) => v ≤ e) then fillCount exts rest (rput r cell it.2.length)
    else throw (.indexError cell)

/-- `numpy.zeros(working_shape)` with `counts[corner] = N`; the corner (index `-1` on every axis)
is the cell `exts` itself -/
def initCount (exts : List Nat) (N : Nat) : Region Int := rput [] exts (N : Int)

/-- generic fill used by every aggregate: `region[x_coords] = Σ_{r ∈ x_rowids} μ r` for each walk item
(`numpy.sum(self.summables[x_rowids], axis=0)` and friends), in walk order -/
def fillWith {α : Type} [Zero α] [Add α] (exts : List Nat) (μ : Nat → α) :
    List (Co × Rows) → Region α → Except Err (Region α)
  | [], r => pure r
  | it :: rest, r =>
    let cell := cellOf exts it.1
    if (exts.zip cell).all (fun (e, v) => v ≤ e) then fillWith exts μ rest (rput r cell (it.2.map μ).sum)
    else throw (.indexError cell)

/-- `numpy.zeros(working_shape)` with the grand total in the corner: `Σ_{r < N} μ r` -/
def initWith {α : Type} [Zero α] [Add α] (exts : List Nat) (N : Nat) (μ : Nat → α) : Region α :=
  rput [] exts ((List.range N).map μ).sum

/-- the textbook per-cell measure: sum of `μ` over the rows whose category on every dimension is the cell's -/
def directMeasure {α : Type} [Zero α] [Add α] (dims : List Dim) (N : Nat) (μ : Nat → α) (c : Cell) : α :=
  (((List.range N).filter fun r => (dims.zip c).all fun (d, v) => dense d r == v).map μ).sum

/-- one marginal-difference pass along axis `k`, pointwise -/
def passFn {α : Type} [Zero α] [Add α] [Sub α] (exts cms : List Nat) (k : Nat) (R : Cell → α) (c : Cell) : α :=
  if c.getD k 0 = cms.getD k 0 then
    R (c.set k (exts.getD k 0)) - ((List.range (exts.getD k 0)).map fun j => R (c.set k j)).sum
  else R c

def workCells (exts : List Nat) : List Cell := allCells (exts.map (· + 1))

/-! ## a marginal pass as data (regenerated: `Gen/DiffGen.lean`, tools/translate_diff.py) -/

/-- a selection along one working axis (extent + 1 entries, the last being the margin) -/
inductive AxSel | common | margin | uncommon | all
deriving Repr, DecidableEq

structure DiffFacts where
  ascending : Bool            -- one pass per dimension, in ascending order
  written : AxSel × AxSel         -- (along the pass's axis, along every other axis)
  minuend : AxSel × AxSel
  summed : AxSel × AxSel
  sumOverPassAxis : Bool      -- `.sum(axis=len(scaffold) + axis)`
deriving Repr, DecidableEq

def AxSel.has (s : AxSel) (e cm i : Nat) : Bool :=
  match s with
  | .common => i == cm
  | .margin => i == e
  | .uncommon => decide (i < e)
  | .all => true

def AxSel.indices (s : AxSel) (e cm : Nat) : List Nat :=
  match s with
  | .common => [cm]
  | .margin => [e]
  | .uncommon => List.range e
  | .all => List.range (e + 1)

/-- the pass the data describe, pointwise: a cell selected by `written` receives (sum over the `minuend` selection) minus
(sum over the `summed` selection) along the pass's axis; every other cell keeps its value -/
def passOf {α : Type} [Zero α] [Add α] [Sub α] (f : DiffFacts) (exts cms : List Nat) (k : Nat) (R : Cell → α) (c : Cell) : α :=
  if f.written.1.has (exts.getD k 0) (cms.getD k 0) (c.getD k 0) then
    ((f.minuend.1.indices (exts.getD k 0) (cms.getD k 0)).map fun j => R (c.set k j)).sum
      - ((f.summed.1.indices (exts.getD k 0) (cms.getD k 0)).map fun j => R (c.set k j)).sum
  else R c

/-- `_compute_common_cells_from_marginal_diffs`: passes along axes 0..k-1 in order -/
def passes {α : Type} [Zero α] [Add α] [Sub α] (exts cms : List Nat) : Nat → Region α → Region α
  | 0, R => R
  | k + 1, R =>
    let R' := passes exts cms k R
    materialise (passFn exts cms k (rget R')) (workCells exts)

/-- a whole measure cube: fill from the walk, then difference the margins along every axis -/
def measureCube {α : Type} [Zero α] [Add α] [Sub α] (dims : List Dim) (exts : List Nat) (N : Nat) (μ : Nat → α) :
    Except Err (Region α) := do
  let filled ← fillWith exts μ (interactions dims) (initWith exts N μ)
  pure (passes exts (dims.map (·.common)) dims.length filled)

structure CountOut where
  shape : List Nat
  counts : List (Cell × Int)      -- every output cell in row-major order
  missing : List Cell             -- cells reported missing (count is zero)
deriving Repr

/-- `ccube(dims, interacting_shape).count()` for one-axis dims (unweighted):
fill from the walk, difference the margins, cut them off, zero ⇒ missing. -/
def countCube (dims : List Dim) (N : Nat) (shape : Option (List Nat)) : Except Err CountOut := do
  let exts := match shape with
    | some s => s
    | none => dims.map inferExtent
  if exts.length ≠ dims.length then throw (.shape "interacting_shape arity")
  let filled ← fillCount exts (interactions dims) (initCount exts N)
  let final := passes exts (dims.map (·.common)) dims.length filled
  let cells := allCells exts
  let counts := cells.map fun c => (c, rget final c)
  pure { shape := exts, counts := counts, missing := (counts.filter (·.2 == 0)).map (·.1) }

end Catii.Cube
