/-!
# Buffer/alias model for the purity property (C17)

A constructor of an aggregate function is abstracted to a straight-line program over named array
variables (one program per control-flow path; `tools/translate.py` regenerates them from the
Python source of `ffuncs.py` / `xfuncs.py` on every run):

* `alias dst src` — `dst` names the same buffer as `src` (`numpy.asarray`, `.T`, views, slicing,
  tuple unpacking, plain assignment);
* `fresh dst` — `dst` names a newly allocated buffer (`.copy()`, `.astype()`, arithmetic, `~`,
  comparisons, NumPy constructors);
* `write dst` — in-place modification of the buffer `dst` names (`x[mask] = v`, `x += v`, mutating
  methods).

`check` is a may-alias analysis: it tracks the variables that may name a caller-owned buffer and
rejects any in-place write through one of them.  `exec` is the concrete semantics on a heap of
buffers.  Core Lean only.
-/
namespace Catii.Store

abbrev Var := String

inductive Instr
  | alias (dst src : Var)
  | fresh (dst : Var)
  | write (dst : Var)
deriving Repr, DecidableEq

/-- may-alias analysis: `t` = variables that may name an input buffer -/
def check : List Instr → List Var → Bool
  | [], _ => true
  | .alias d s :: rest, t => check rest (if t.contains s then d :: t else t.filter (· != d))
  | .fresh d :: rest, t => check rest (t.filter (· != d))
  | .write d :: rest, t => !t.contains d && check rest t

structure St where
  env : Var → Nat          -- which buffer a variable names
  heap : Nat → Nat         -- buffer contents (abstract)
  next : Nat               -- next unused buffer id

/-- concrete execution; `w n` is the (arbitrary) content produced by the `n`-th write/allocation -/
def exec (w : Nat → Nat) : List Instr → St → Nat → St
  | [], s, _ => s
  | .alias d src :: rest, s, n =>
      exec w rest { s with env := fun v => if v = d then s.env src else s.env v } n
  | .fresh d :: rest, s, n =>
      exec w rest { env := fun v => if v = d then s.next else s.env v,
                    heap := fun b => if b = s.next then w n else s.heap b, next := s.next + 1 } (n + 1)
  | .write d :: rest, s, n =>
      exec w rest { s with heap := fun b => if b = s.env d then w n else s.heap b } (n + 1)

end Catii.Store
