/-! Shared instances for the models. Core Lean only. -/
instance instDecidableEqExceptCatii {ε α} [DecidableEq ε] [DecidableEq α] : DecidableEq (Except ε α)
  | .ok a, .ok b => if h : a = b then isTrue (by rw [h]) else isFalse (by intro h'; cases h'; exact h rfl)
  | .error a, .error b => if h : a = b then isTrue (by rw [h]) else isFalse (by intro h'; cases h'; exact h rfl)
  | .ok _, .error _ => isFalse (by intro h; cases h)
  | .error _, .ok _ => isFalse (by intro h; cases h)
