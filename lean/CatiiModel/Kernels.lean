import CatiiModel.Prelude
/-!
# Sorted-set kernels (`src/catii/set_operations.pyx`) as index loops with *checked* accesses

Every source-level `a[i]` is a checked read `rd` / checked write `wr` that fails with `Err`
instead of touching memory outside the buffer (C09); outputs are the filled prefix of a
buffer of capacity `cap` (the `numpy.empty(max_result_len)` allocation).  Control flow mirrors
the `while 1:` loops: cached `left/right`, the no-overlap shortcuts, the tail-copy loops.
Values are `Nat` (uint32 in the code; the two-array kernels do no arithmetic on values).
Hand-written; tied to the code by the correspondence harness (C08) and the bounds-checked
twin (C09).  Core Lean only.
-/
namespace Catii.Kern

inductive Err | oobRead (i len : Nat) | oobWrite (i len : Nat) | value (msg : String)
deriving Repr, DecidableEq

abbrev M := Except Err

@[inline] def rd (a : Array Nat) (i : Nat) : M Nat :=
  match a[i]? with
  | some v => pure v
  | none => throw (.oobRead i a.size)

/-- write `v` at index `out.size` of a buffer of `cap` elements -/
@[inline] def wr (out : Array Nat) (cap : Nat) (v : Nat) : M (Array Nat) :=
  if out.size < cap then pure (out.push v) else throw (.oobWrite out.size cap)

/-! ## primitives of the REGENERATED kernels (`Gen/KernelsGen.lean`, written by tools/translate_pyx.py)

There the result buffer keeps its allocated size and `result_len` is an ordinary integer, exactly as in the source. -/

/-- `numpy.empty(n, dtype=uint32)`: n words of unspecified content (`junk`) -/
def numpyEmpty (n : Nat) (junk : Nat → Nat) : Array Nat := Array.ofFn (n := n) (fun i => junk i.val)

/-- `a - b` on C ints that the model keeps in N: going below zero is an error (a negative index is out of bounds) -/
@[inline] def csub (a b : Nat) : M Nat :=
  if b ≤ a then pure (a - b) else throw (.value "integer below zero")

/-- `numpy.concatenate(list of arrays)` -/
def concatAll (l : List (Array Nat)) : Array Nat := l.foldl (· ++ ·) #[]

/-- `numpy.cumsum` -/
def cumsumFrom (acc : Nat) : List Nat → List Nat
  | [] => []
  | x :: xs => (acc + x) :: cumsumFrom (acc + x) xs
def cumsumArr (a : Array Nat) : Array Nat := (cumsumFrom 0 a.toList).toArray

/-- element-wise `a - b` of two integer arrays (the kernel uses it as `cumsum(lengths) - lengths`, never negative) -/
def zipSub (a b : Array Nat) : Array Nat := (List.zipWith (· - ·) a.toList b.toList).toArray

/-- `view[i] = v`, checked -/
@[inline] def wrAt (buf : Array Nat) (i v : Nat) : M (Array Nat) :=
  if i < buf.size then pure (buf.setIfInBounds i v) else throw (.oobWrite i buf.size)

/-- `buf[:n] = src` (NumPy raises unless the two have the same length) -/
def sliceAssign (buf : Array Nat) (n : Nat) (src : Array Nat) : M (Array Nat) :=
  if n ≤ buf.size ∧ src.size = n then pure (src ++ buf.extract n buf.size)
  else throw (.value "slice assignment: shapes differ")

/-! ## structural merges (refinement targets) -/

def inter : List Nat → List Nat → List Nat
  | [], _ => []
  | _ :: _, [] => []
  | a :: as, b :: bs =>
    if a > b then inter (a :: as) bs
    else if b > a then inter as (b :: bs)
    else a :: inter as bs

def uni : List Nat → List Nat → List Nat
  | [], r => r
  | a :: as, [] => a :: as
  | a :: as, b :: bs =>
    if a > b then b :: uni (a :: as) bs
    else if b > a then a :: uni as (b :: bs)
    else a :: uni as bs

def dif : List Nat → List Nat → List Nat
  | [], _ => []
  | a :: as, [] => a :: as
  | a :: as, b :: bs =>
    if a > b then dif (a :: as) bs
    else if b > a then a :: dif as (b :: bs)
    else dif as bs

/-! ## set_intersect_merge_np -/

def interLoop (L R : Array Nat) (cap lp rp left right : Nat) (out : Array Nat) : M (Array Nat) :=
  if _h : lp < L.size ∧ rp < R.size then
    if left > right then
      if rp + 1 ≥ R.size then pure out
      else do
        let right ← rd R (rp + 1)
        interLoop L R cap lp (rp + 1) left right out
    else if right > left then
      if lp + 1 ≥ L.size then pure out
      else do
        let left ← rd L (lp + 1)
        interLoop L R cap (lp + 1) rp left right out
    else do
      let out ← wr out cap left
      if lp + 1 ≥ L.size then pure out
      else if rp + 1 ≥ R.size then pure out
      else do
        let left ← rd L (lp + 1)
        let right ← rd R (rp + 1)
        interLoop L R cap (lp + 1) (rp + 1) left right out
  else pure out
termination_by (L.size - lp) + (R.size - rp)
decreasing_by all_goals (simp_wf; omega)

/-- `set_intersect_merge_np(left_array, right_array)`.  `emptyGuardOr = true` is the current
(repaired) guard `left_len == 0 or right_len == 0`; `false` is the historical `and` (finding
F09: reads element 0 of an empty operand). -/
def interK (L R : Array Nat) (emptyGuardOr : Bool := true) : M (Array Nat) :=
  if (if emptyGuardOr then L.size = 0 ∨ R.size = 0 else L.size = 0 ∧ R.size = 0) then pure #[]
  else do
    let left ← rd L 0
    let right ← rd R 0
    let rlast ← rd R (R.size - 1)
    let llast ← rd L (L.size - 1)
    if left > rlast ∨ right > llast then pure #[]
    else interLoop L R (min L.size R.size) 0 0 left right #[]

/-! ## set_union_merge_np -/

def copyTail (A : Array Nat) (cap p : Nat) (out : Array Nat) : M (Array Nat) :=
  if p < A.size then do
    let v ← rd A p
    let out ← wr out cap v
    copyTail A cap (p + 1) out
  else pure out
termination_by A.size - p

/-- the two `while ptr < len` tail loops that run after the main loop breaks -/
def unionFinish (L R : Array Nat) (cap lp rp : Nat) (out : Array Nat) : M (Array Nat) := do
  let out ← copyTail L cap lp out
  copyTail R cap rp out

def unionLoop (L R : Array Nat) (cap lp rp left right : Nat) (out : Array Nat) : M (Array Nat) :=
  if _h : lp < L.size ∧ rp < R.size then
    if left > right then do
      let out ← wr out cap right
      if rp + 1 ≥ R.size then unionFinish L R cap lp (rp + 1) out
      else do
        let right ← rd R (rp + 1)
        unionLoop L R cap lp (rp + 1) left right out
    else if right > left then do
      let out ← wr out cap left
      if lp + 1 ≥ L.size then unionFinish L R cap (lp + 1) rp out
      else do
        let left ← rd L (lp + 1)
        unionLoop L R cap (lp + 1) rp left right out
    else do
      let out ← wr out cap left
      if lp + 1 ≥ L.size then unionFinish L R cap (lp + 1) (rp + 1) out
      else if rp + 1 ≥ R.size then unionFinish L R cap (lp + 1) (rp + 1) out
      else do
        let left ← rd L (lp + 1)
        let right ← rd R (rp + 1)
        unionLoop L R cap (lp + 1) (rp + 1) left right out
  else unionFinish L R cap lp rp out
termination_by (L.size - lp) + (R.size - rp)
decreasing_by all_goals (simp_wf; omega)

def unionK (L R : Array Nat) : M (Array Nat) :=
  if L.size = 0 then pure R
  else if R.size = 0 then pure L
  else do
    let left ← rd L 0
    let right ← rd R 0
    let rlast ← rd R (R.size - 1)
    if left > rlast then pure (R ++ L)
    else do
      let llast ← rd L (L.size - 1)
      if right > llast then pure (L ++ R)
      else unionLoop L R (L.size + R.size) 0 0 left right #[]

/-! ## set_difference_merge_np -/

def diffLoop (L R : Array Nat) (cap lp rp left right : Nat) (out : Array Nat) : M (Array Nat) :=
  if _h : lp < L.size ∧ rp < R.size then
    if left > right then
      if rp + 1 ≥ R.size then copyTail L cap lp out
      else do
        let right ← rd R (rp + 1)
        diffLoop L R cap lp (rp + 1) left right out
    else if right > left then do
      let out ← wr out cap left
      if lp + 1 ≥ L.size then copyTail L cap (lp + 1) out
      else do
        let left ← rd L (lp + 1)
        diffLoop L R cap (lp + 1) rp left right out
    else
      if lp + 1 ≥ L.size then copyTail L cap (lp + 1) out
      else if rp + 1 ≥ R.size then copyTail L cap (lp + 1) out
      else do
        let left ← rd L (lp + 1)
        let right ← rd R (rp + 1)
        diffLoop L R cap (lp + 1) (rp + 1) left right out
  else copyTail L cap lp out
termination_by (L.size - lp) + (R.size - rp)
decreasing_by all_goals (simp_wf; omega)

def diffK (L R : Array Nat) : M (Array Nat) :=
  if L.size = 0 then pure #[]
  else if R.size = 0 then pure L
  else do
    let left ← rd L 0
    let right ← rd R 0
    let rlast ← rd R (R.size - 1)
    let llast ← rd L (L.size - 1)
    if left > rlast ∨ right > llast then pure L
    else diffLoop L R L.size 0 0 left right #[]

/-! ## the `None`-convention wrappers (`intersection`, `union`, `difference`) -/

def nonEmpty (a : Array Nat) : Option (Array Nat) := if a.size = 0 then none else some a

def intersectionW (l r : Option (Array Nat)) : M (Option (Array Nat)) :=
  match l, r with
  | some L, some R => do pure (nonEmpty (← interK L R))
  | _, _ => pure none

def unionW (l r : Option (Array Nat)) : M (Option (Array Nat)) :=
  match l, r with
  | none, none => pure none
  | none, some R => pure (nonEmpty R)
  | some L, none => pure (nonEmpty L)
  | some L, some R => do pure (nonEmpty (← unionK L R))

def differenceW (l r : Option (Array Nat)) : M (Option (Array Nat)) :=
  match l, r with
  | none, _ => pure none
  | some L, none => pure (nonEmpty L)
  | some L, some R => do pure (nonEmpty (← diffK L R))

/-! ## set_union_merge_many (k-way union)

List-level model: each array's unread part `values[pointers[i]:limits[i]]` is a list.  One
iteration scans the heads of the non-exhausted arrays for the minimum, emits it, and advances
every array whose head equals it; the loop ends when no array has a head. -/

def minHead : List (List Nat) → Option Nat
  | [] => none
  | [] :: ls => minHead ls
  | (a :: _) :: ls =>
    match minHead ls with
    | none => some a
    | some b => if b < a then some b else some a

def adv1 (m : Nat) : List Nat → List Nat
  | a :: as => if a = m then as else a :: as
  | [] => []

def advance (m : Nat) (ls : List (List Nat)) : List (List Nat) := ls.map (adv1 m)

def total : List (List Nat) → Nat
  | [] => 0
  | l :: ls => l.length + total ls

theorem minHead_mem {ls : List (List Nat)} {m : Nat} (h : minHead ls = some m) :
    ∃ l ∈ ls, ∃ t, l = m :: t := by
  induction ls generalizing m with
  | nil => simp [minHead] at h
  | cons x xs ih =>
    cases x with
    | nil =>
      simp only [minHead] at h
      obtain ⟨l, hl, t, ht⟩ := ih h; exact ⟨l, List.mem_cons_of_mem _ hl, t, ht⟩
    | cons a as =>
      simp only [minHead] at h
      cases hm : minHead xs with
      | none => rw [hm] at h; simp at h; subst h; exact ⟨_, List.mem_cons_self, as, rfl⟩
      | some b =>
        rw [hm] at h
        by_cases hlt : b < a
        · simp [hlt] at h; subst h
          obtain ⟨l, hl, t, ht⟩ := ih hm; exact ⟨l, List.mem_cons_of_mem _ hl, t, ht⟩
        · simp [hlt] at h; subst h; exact ⟨_, List.mem_cons_self, as, rfl⟩

theorem adv1_length_le (m : Nat) (l : List Nat) : (adv1 m l).length ≤ l.length := by
  cases l with
  | nil => simp [adv1]
  | cons a as => by_cases ha : a = m <;> simp [adv1, ha]

theorem total_advance_le (m : Nat) (ls : List (List Nat)) : total (advance m ls) ≤ total ls := by
  induction ls with
  | nil => simp [advance, total]
  | cons y ys ih =>
    have := adv1_length_le m y
    simp only [advance, List.map_cons, total] at ih ⊢
    omega

theorem total_advance_lt {ls : List (List Nat)} {m : Nat} (h : ∃ l ∈ ls, ∃ t, l = m :: t) :
    total (advance m ls) < total ls := by
  induction ls with
  | nil => obtain ⟨l, hl, _⟩ := h; simp at hl
  | cons x xs ih =>
    obtain ⟨l, hl, t, ht⟩ := h
    rcases List.mem_cons.mp hl with rfl | hl'
    · subst ht
      have := total_advance_le m xs
      simp only [advance, List.map_cons, total, adv1] at this ⊢
      simp; omega
    · have := ih ⟨l, hl', t, ht⟩
      have hx := adv1_length_le m x
      simp only [advance, List.map_cons, total] at this ⊢
      omega

def unionManyL (ls : List (List Nat)) : List Nat :=
  match h : minHead ls with
  | none => []
  | some m => m :: unionManyL (advance m ls)
termination_by total ls
decreasing_by exact total_advance_lt (minHead_mem h)

/-- `set_union_merge_many(arrays)`: empty arrays are dropped first (`value_arrays`) -/
def unionManyK (arrays : List (Array Nat)) : M (Array Nat) :=
  pure (unionManyL ((arrays.map Array.toList).filter (· ≠ []))).toArray

/-! ## set_union_merge_many as an index loop with checked accesses (C09)

The concatenation `values`, the output buffer of `len(values)` words, and one `(pointer, limit)` pair per non-empty
input (`pointers[arrnum]`, `limits[arrnum]`; traversing `range(num_arrays)` is modelled as traversing the list of
pairs).  `values[ptr]` is a checked read, `result_view[result_len] = min_value` a checked write. -/

/-- one step of the scan for the minimum -/
def manyScanStep (values : Array Nat) (st : Option Nat) (p : Nat × Nat) : M (Option Nat) :=
  if p.1 ≥ p.2 then pure st else do
    let v ← rd values p.1
    pure (match st with
      | none => some v
      | some m => if v < m then some v else some m)

/-- one step of "advance every array whose next value is the minimum" -/
def manyAdvStep (values : Array Nat) (mv : Nat) (p : Nat × Nat) : M (Nat × Nat) :=
  if p.1 < p.2 then do
    let v ← rd values p.1
    pure (if v == mv then (p.1 + 1, p.2) else p)
  else pure p

/-- the `while 1:` loop; `fuel` bounds the number of rounds (each round consumes at least one input word) -/
def manyLoop (values : Array Nat) (cap : Nat) : Nat → List (Nat × Nat) → Array Nat → M (Array Nat)
  | 0, _, _ => throw (.value "set_union_merge_many: out of fuel")
  | fuel + 1, ps, out => do
    let m ← ps.foldlM (manyScanStep values) none
    match m with
    | none => pure out
    | some mv => do
      let out ← wr out cap mv
      let ps ← ps.mapM (manyAdvStep values mv)
      manyLoop values cap fuel ps out

/-- `(pointer, limit)` of each array inside the concatenation: `limits = cumsum(lengths)`, `pointers = limits - lengths` -/
def segments : Nat → List Nat → List (Nat × Nat)
  | _, [] => []
  | start, l :: ls => (start, start + l) :: segments (start + l) ls

/-- `set_union_merge_many(arrays)` with checked accesses -/
def unionManyChecked (arrays : List (Array Nat)) : M (Array Nat) :=
  let vas := (arrays.map Array.toList).filter (· ≠ [])
  if vas = [] then pure #[] else
  let values := vas.flatten.toArray
  manyLoop values values.size (values.size + 1) (segments 0 (vas.map List.length)) #[]

end Catii.Kern
