import CatiiModel.Dtypes
import CatiiModel.Gen.FitDtype
import CatiiModel.Gen.Consts
import CatiiModel.Kernels
import CatiiModel.Indx
import CatiiModel.Cube
import CatiiModel.IIndex
import CatiiModel.Agg
