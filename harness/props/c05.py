"""C05 — results are independent of which category is stored as common."""
from fractions import Fraction

import numpy as np

import agg_common as A
import core
import gen_cube as G
import idx_common as I

ID = "C05"
LEAN_MODULES = ["CatiiProps.C05"]
USES_TRANSLATOR = ['marginal_diff']   # Gen/DiffGen.lean: one pass of _compute_common_cells_from_marginal_diffs as data (tools/translate_diff.py)
RULE = ("cases of C03 (dyadic stream, every fourth case arbitrary doubles compared within 1e-9 x grand total with the missing "
        "cells exactly; one-, two- and three-axis dims); for every dimension d and every value v in "
        "0..extent plus one value outside the data: d is replaced by a copy shifted to common v (and, separately, "
        "re-normalised with shift_common() afterwards); every aggregate of C03 is compared with the unshifted cube over "
        "the same explicit shape (also for a cube object built BEFORE its dimension is re-encoded in place): missing cells exactly, values exactly. Non-trivial = the shifted dimension has rows; "
        "distinct by (case, dimension, v, aggregate)")
ASSUMPTIONS = ["explicit interacting shape covering both commons (the property's 'value outside the data' needs a larger extent)"]


def check(ctx, case, reqs, pend):
    from catii import ccube
    dense, commons, N = case["dense"], case["commons"], case["N"]
    if not dense:
        return
    idxs = [G.make_index(d, c) for d, c in zip(dense, commons)]
    base_shape = [int(max([int(v) for v in np.unique(d).tolist()] + [c])) + 1 for d, c in zip(dense, commons)]
    for a, (d, ix) in enumerate(zip(dense, idxs)):
        if len(ix.shape) > 2:
            vs = [int(ix.common)]          # shift_common handles one- and two-axis indexes
        else:
            vs = list(range(0, base_shape[a] + 1))
        for v in vs:
            shape = list(base_shape)
            shape[a] = max(shape[a], v + 1)
            shifted = ix.copy()
            snap = I.snapshot(ix)
            try:
                shifted.shift_common(v)
                renorm = shifted.copy()
                if len(ix.shape) <= 2:
                    renorm.shift_common()
            except Exception as e:
                ctx.oracle_fail("shift_common(%d) raised %s" % (v, type(e).__name__), A.small_desc(case, {"dim": a, "v": v}),
                                cls="C05-raises")
                continue
            variants = [("shift_common(%d)" % v, shifted), ("shift_common(%d) then shift_common()" % v, renorm)]
            if len(ix.shape) > 2:      # shift_common is defined for one- and two-axis indexes (C06's quantifier)
                variants = variants[:1]
            for func in A.FUNCS:
                desc = A.small_desc(case, {"func": func, "dim": a, "v": v, "shape": shape})
                ctx.case(desc, nontrivial=N > 0)
                ctx.hit("func:" + func)
                present = v in set(int(x) for x in np.unique(d).tolist())
                ctx.hit("v:" + ("outside_shape" if v >= base_shape[a] else "present" if present else "absent"))
                try:
                    bv, bm = A.call(ccube(idxs, interacting_shape=tuple(shape)), func, case, ("pair", 0))
                except Exception as e:
                    ctx.oracle_fail("baseline ccube.%s raised %s" % (func, type(e).__name__), desc, cls="C05-raises")
                    continue
                for name, var in variants:
                    dims2 = list(idxs)
                    dims2[a] = var
                    try:
                        sv, sm = A.call(ccube(dims2, interacting_shape=tuple(shape)), func, case, ("pair", 0))
                    except Exception as e:
                        ctx.oracle_fail("ccube.%s after %s raised %s: %s" % (func, name, type(e).__name__, str(e)[:60]), desc,
                                        cls="C05-raises")
                        continue
                    if sv.shape != bv.shape or not np.array_equal(sm, bm):
                        bad = "shape" if sv.shape != bv.shape else tuple(int(x) for x in np.argwhere(sm != bm)[0])
                        ctx.oracle_fail("%s: after %s on dimension %d the missing cells differ (%s)" % (func, name, a, bad), desc,
                                        cls="C05-differs")
                    elif case["general"]:
                        tol = 1e-9 * A.grand_total(case, func)
                        if not np.all(np.abs(sv[~bm] - bv[~bm]) <= tol):
                            ctx.oracle_fail("%s: after %s on dimension %d values move by more than %g" % (func, name, a, tol), desc,
                                            cls="C05-differs")
                    elif not np.array_equal(sv[~bm], bv[~bm]):
                        pos = np.argwhere((sv != bv) & ~bm)[0]
                        pos = tuple(int(x) for x in pos)
                        ctx.oracle_fail("%s: after %s on dimension %d cell %s = %r, was %r" % (func, name, a, pos, sv[pos], bv[pos]),
                                        desc, cls="C05-differs")
            # a long-lived cube: built (and used) first, THEN one of its dimensions is re-encoded in place
            if len(ix.shape) <= 2:
                live = [x.copy() for x in idxs]
                try:
                    cube = ccube(live, interacting_shape=tuple(shape))
                    A.call(cube, "count", case, ("pair", 0))
                    live[a].shift_common(v)
                    for func in A.FUNCS:
                        bv, bm = A.call(ccube(idxs, interacting_shape=tuple(shape)), func, case, ("pair", 0))
                        sv, sm = A.call(cube, func, case, ("pair", 0))
                        ctx.evaluations += 1
                        ok = sv.shape == bv.shape and np.array_equal(sm, bm) and (
                            np.all(np.abs(sv[~bm] - bv[~bm]) <= 1e-9 * A.grand_total(case, func)) if case["general"]
                            else np.array_equal(sv[~bm], bv[~bm]))
                        if not ok:
                            ctx.oracle_fail("%s: a cube built BEFORE dimension %d was re-encoded in place with shift_common(%d) "
                                            "reports different cells afterwards" % (func, a, v),
                                            A.small_desc(case, {"func": func, "dim": a, "v": v, "shape": shape, "live_cube": True}),
                                            cls="C05-differs")
                            break
                    ctx.hit("live_cube_reencoded")
                except Exception as e:
                    ctx.oracle_fail("live cube after shift_common(%d) raised %s: %s" % (v, type(e).__name__, str(e)[:60]),
                                    A.small_desc(case, {"dim": a, "v": v}), cls="C05-raises")
            if I.snapshot(ix) != snap:
                ctx.oracle_fail("copy().shift_common() changed the original index", A.small_desc(case), cls="C05-aliasing")
            # model: the count cube of the shifted dims (one-axis only)
            if all(x.ndim == 1 for x in dense) and int(np.prod([s + 1 for s in shape])) <= 150:
                dims2 = list(idxs)
                dims2[a] = shifted
                cnt, cm = A.call(ccube(dims2, interacting_shape=tuple(shape)), "count",
                                 dict(case, weights=None), ("pair", 0))
                reqs.append({"op": "count", "dims": G.dims_to_model(dims2), "N": N, "shape": shape})
                pend.append((A.small_desc(case, {"dim": a, "v": v}), [int(x) for x in cnt.reshape(-1).tolist()]))


def run(ctx):
    core.load_catii()
    reqs, pend = [], []
    for it in range(ctx.n(14)):
        case = A.gen_case(ctx.rng, multi_axis=ctx.rng.random() < 0.3, k=ctx.rng.choice([1, 2, 2, 3]),
                          N=ctx.rng.choice([0, 1, 3, 5, 9]), general=(it % 4 == 3))
        if case["general"]:
            ctx.hit("general_stream")
        if it < 3:
            # a multi-column dimension one of whose columns holds the stored common value on EVERY row (no entry at all for
            # that column): re-expressing it must still materialise that column
            for _try in range(40):
                case = A.gen_case(ctx.rng, multi_axis=True, k=ctx.rng.choice([1, 2]), N=ctx.rng.choice([5, 9]))
                if any(d.ndim == 2 and d.shape[1] >= 1 for d in case["dense"]):
                    break
            for j, d in enumerate(case["dense"]):
                if d.ndim == 2 and d.shape[1] >= 1:
                    d[:, ctx.rng.randrange(d.shape[1])] = case["commons"][j]
                    ctx.hit("all_common_column")
                    break
        check(ctx, case, reqs, pend)
    for _ in range(ctx.n(9)):       # residue stream: inexact weight sums; empty cells must stay missing after differencing
        case = (A.residue_case(ctx.rng) if _ % 3 == 0 else
                A.gen_case(ctx.rng, k=2, N=ctx.rng.choice([9, 14, 25]), general="residue"))
        case["ignore"] = True if _ % 2 else case["ignore"]
        ctx.hit("residue_stream")
        check(ctx, case, reqs, pend)
    if ctx.oracle_only:
        return
    for (desc, counts), m in zip(pend, ctx.model.run(reqs)):
        if m.get("counts") != counts:
            ctx.corr_fail("count cube of the shifted dims: impl %s model %s" % (counts[:20], str(m.get("counts", m))[:80]), desc)


def replay(ctx, rep):
    return True
