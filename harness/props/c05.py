"""C05 — results are independent of which category is stored as common."""
from fractions import Fraction

import numpy as np

import agg_common as A
import core
import gen_cube as G
import idx_common as I

ID = "C05"
LEAN_MODULES = ["CatiiProps.C05"]
USES_TRANSLATOR = ['marginal_diff', 'shift_to']   # Gen/DiffGen.lean: one pass of _compute_common_cells_from_marginal_diffs as data (tools/translate_diff.py); Gen/ShiftGen.lean: the re-encoding block of shift_common (tools/translate_shift.py)
RULE = ("cases of C03 (dyadic stream, every fourth case arbitrary doubles compared within 1e-9 x grand total with the missing "
        "cells exactly; one-, two- and three-axis dims); for every dimension d and every value v in "
        "0..extent plus one value outside the data: d is replaced by a copy shifted to common v (and, separately, "
        "re-normalised with shift_common() afterwards); every aggregate of C03 is compared with the unshifted cube over "
        "the same explicit shape (also for a cube object built BEFORE its dimension is re-encoded in place; and for one-axis indexes with a HISTORY: shift_common(v), a category emptied by an entry-wise edit, re-encoded to every value / through column_stack / read with force=True): missing cells exactly, values exactly. Non-trivial = the shifted dimension has rows; "
        "distinct by (case, dimension, v, aggregate)")
ASSUMPTIONS = ["explicit interacting shape covering both commons (the property's 'value outside the data' needs a larger extent)"]


def check(ctx, case, reqs, pend):
    from catii import ccube
    dense, commons, N = case["dense"], case["commons"], case["N"]
    if not dense:
        return
    idxs = [G.make_index(d, c) for d, c in zip(dense, commons)]
    base_shape = [int(max([int(v) for v in np.unique(d).tolist()] + [c])) + 1 for d, c in zip(dense, commons)]
    for a, (d, ix) in enumerate(zip(dense, idxs)):
        if len(ix.shape) > 2:
            vs = [int(ix.common)]          # shift_common handles one- and two-axis indexes
        else:
            vs = list(range(0, base_shape[a] + 1))
        for v in vs:
            shape = list(base_shape)
            shape[a] = max(shape[a], v + 1)
            shifted = ix.copy()
            snap = I.snapshot(ix)
            try:
                shifted.shift_common(v)
                renorm = shifted.copy()
                if len(ix.shape) <= 2:
                    renorm.shift_common()
            except Exception as e:
                ctx.oracle_fail("shift_common(%d) raised %s" % (v, type(e).__name__), A.small_desc(case, {"dim": a, "v": v}),
                                cls="C05-raises")
                continue
            variants = [("shift_common(%d)" % v, shifted), ("shift_common(%d) then shift_common()" % v, renorm)]
            if len(ix.shape) > 2:      # shift_common is defined for one- and two-axis indexes (C06's quantifier)
                variants = variants[:1]
            for func in A.FUNCS:
                desc = A.small_desc(case, {"func": func, "dim": a, "v": v, "shape": shape})
                ctx.case(desc, nontrivial=N > 0)
                ctx.hit("func:" + func)
                present = v in set(int(x) for x in np.unique(d).tolist())
                ctx.hit("v:" + ("outside_shape" if v >= base_shape[a] else "present" if present else "absent"))
                try:
                    bv, bm = A.call(ccube(idxs, interacting_shape=tuple(shape)), func, case, ("pair", 0))
                except Exception as e:
                    ctx.oracle_fail("baseline ccube.%s raised %s" % (func, type(e).__name__), desc, cls="C05-raises")
                    continue
                for name, var in variants:
                    dims2 = list(idxs)
                    dims2[a] = var
                    try:
                        sv, sm = A.call(ccube(dims2, interacting_shape=tuple(shape)), func, case, ("pair", 0))
                    except Exception as e:
                        ctx.oracle_fail("ccube.%s after %s raised %s: %s" % (func, name, type(e).__name__, str(e)[:60]), desc,
                                        cls="C05-raises")
                        continue
                    if sv.shape != bv.shape or not np.array_equal(sm, bm):
                        bad = "shape" if sv.shape != bv.shape else tuple(int(x) for x in np.argwhere(sm != bm)[0])
                        ctx.oracle_fail("%s: after %s on dimension %d the missing cells differ (%s)" % (func, name, a, bad), desc,
                                        cls="C05-differs")
                    elif case["general"]:
                        tol = 1e-9 * A.grand_total(case, func)
                        if not np.all(np.abs(sv[~bm] - bv[~bm]) <= tol):
                            ctx.oracle_fail("%s: after %s on dimension %d values move by more than %g" % (func, name, a, tol), desc,
                                            cls="C05-differs")
                    elif not np.array_equal(sv[~bm], bv[~bm]):
                        pos = np.argwhere((sv != bv) & ~bm)[0]
                        pos = tuple(int(x) for x in pos)
                        ctx.oracle_fail("%s: after %s on dimension %d cell %s = %r, was %r" % (func, name, a, pos, sv[pos], bv[pos]),
                                        desc, cls="C05-differs")
            # a long-lived cube: built (and used) first, THEN one of its dimensions is re-encoded in place
            if len(ix.shape) <= 2:
                live = [x.copy() for x in idxs]
                try:
                    cube = ccube(live, interacting_shape=tuple(shape))
                    A.call(cube, "count", case, ("pair", 0))
                    live[a].shift_common(v)
                    for func in A.FUNCS:
                        bv, bm = A.call(ccube(idxs, interacting_shape=tuple(shape)), func, case, ("pair", 0))
                        sv, sm = A.call(cube, func, case, ("pair", 0))
                        ctx.evaluations += 1
                        ok = sv.shape == bv.shape and np.array_equal(sm, bm) and (
                            np.all(np.abs(sv[~bm] - bv[~bm]) <= 1e-9 * A.grand_total(case, func)) if case["general"]
                            else np.array_equal(sv[~bm], bv[~bm]))
                        if not ok:
                            ctx.oracle_fail("%s: a cube built BEFORE dimension %d was re-encoded in place with shift_common(%d) "
                                            "reports different cells afterwards" % (func, a, v),
                                            A.small_desc(case, {"func": func, "dim": a, "v": v, "shape": shape, "live_cube": True}),
                                            cls="C05-differs")
                            break
                    ctx.hit("live_cube_reencoded")
                except Exception as e:
                    ctx.oracle_fail("live cube after shift_common(%d) raised %s: %s" % (v, type(e).__name__, str(e)[:60]),
                                    A.small_desc(case, {"dim": a, "v": v}), cls="C05-raises")
            if I.snapshot(ix) != snap:
                ctx.oracle_fail("copy().shift_common() changed the original index", A.small_desc(case), cls="C05-aliasing")
            # model: the count cube of the shifted dims (one-axis only)
            if all(x.ndim == 1 for x in dense) and int(np.prod([s + 1 for s in shape])) <= 150:
                dims2 = list(idxs)
                dims2[a] = shifted
                try:
                    cnt, cm = A.call(ccube(dims2, interacting_shape=tuple(shape)), "count",
                                     dict(case, weights=None), ("pair", 0))
                except Exception as e:
                    ctx.oracle_fail("unweighted count after shift_common(%d) on dimension %d raised %s: %s" % (v, a, type(e).__name__, str(e)[:60]),
                                    A.small_desc(case, {"dim": a, "v": v}), cls="C05-raises")
                    continue
                reqs.append({"op": "count", "dims": G.dims_to_model(dims2), "N": N, "shape": shape})
                pend.append((A.small_desc(case, {"dim": a, "v": v}), [int(x) for x in cnt.reshape(-1).tolist()]))


def emptied_history(ctx):
    """An index with a HISTORY: re-expressed with shift_common(v); then one category loses ALL its rows through an entry-wise
    edit (difference_update / intersection_update / set_if(key, None) / update assigning the common value / del) - those rows now
    hold the common value v; then it is re-expressed again (shift_common(w) for every w, shift_common(), on the object itself,
    on a copy, through column_stack).  Dense content, forced reads and the count cube must be those of an index built afresh
    from the expected dense array: the encoding an index went through is not part of what it stands for."""
    from catii import ccube, iindex
    import catii.iindexes as M
    rng = ctx.rng
    N = rng.choice([6, 9, 12, 17])
    nvals = rng.choice([3, 4, 5])
    d = np.array([rng.randrange(nvals) for _ in range(N)], dtype=np.int64)
    vals = sorted(set(d.tolist()))
    if len(vals) < 3:
        return
    c0 = rng.choice(vals)
    v = rng.choice([x for x in vals if x != c0])
    k = rng.choice([x for x in vals if x != v])
    how = rng.choice(["difference_update", "intersection_update", "set_if_none", "update_to_common", "del", "difference_partial"])
    desc = {"dense": d.tolist(), "built_common": c0, "shift_to": v, "emptied": k, "how": how}
    ctx.case(desc, nontrivial=True)
    ctx.hit("history:" + how)
    try:
        ix = G.make_index(d, c0)
        ix.shift_common(v)
        if rng.random() < 0.5:
            ix.common_rowids()              # a read in between
        rows = np.asarray(ix[(k,)]).copy()
        exp = d.copy()
        if how == "difference_update":
            ix.difference_update({(k,): rows})
            exp[d == k] = v
        elif how == "difference_partial":
            part = rows[: max(1, len(rows) // 2)]
            ix.difference_update({(k,): part})
            exp[part.astype(np.int64)] = v
        elif how == "intersection_update":
            other = {kk: np.asarray(vv).copy() for kk, vv in dict.items(ix)}
            other[(k,)] = np.array([], dtype=rows.dtype)
            ix.intersection_update(other)
            exp[d == k] = v
        elif how == "set_if_none":
            ix.set_if((k,), None)
            exp[d == k] = v
        elif how == "update_to_common":
            ix.update({(v,): rows})         # those rows are assigned the common value
            exp[d == k] = v
        else:
            del ix[(k,)]
            exp[d == k] = v
        got = I.dense_of(ix)
        if not np.array_equal(got, exp):
            ctx.oracle_fail("after shift_common(%d) and %s of category %d the dense content is %s, expected %s" % (
                v, how, k, got.tolist(), exp.tolist()), desc, cls="C05-history")
            return
        fresh = G.make_index(exp, v)
        top = int(max(vals)) + 1
        for w in list(range(0, top + 1)) + [None]:
            for via in ("inplace_on_copy", "column_stack", "forced_reads"):
                ctx.evaluations += 1
                if via == "inplace_on_copy":
                    j = ix.copy()
                    j.shift_common(w) if w is not None else j.shift_common()
                    got = I.dense_of(j)
                elif via == "column_stack":
                    if w is None:
                        continue
                    j = M.column_stack([ix, fresh], new_common=w)
                    got2 = I.dense_of(j)
                    got = got2[:, 0]
                    if not np.array_equal(got2[:, 1], exp):
                        ctx.oracle_fail("column_stack(new_common=%s) of a freshly built index is wrong" % w, desc, cls="C05-history")
                else:
                    if w is None:
                        continue
                    want = np.nonzero(exp == w)[0].tolist()
                    r = ix.get((w,), None, force=True)
                    got_rows = [] if r is None else sorted(int(x) for x in np.asarray(r).tolist())
                    if got_rows != want and (w in exp or got_rows):
                        ctx.oracle_fail("after shift_common(%d) and %s of category %d, get((%d,), force=True) = %s, the rows holding "
                                        "it are %s" % (v, how, k, w, got_rows[:10], want[:10]), dict(desc, read=w), cls="C05-history")
                    continue
                if not np.array_equal(got, exp):
                    ctx.oracle_fail("after shift_common(%d), %s of category %d and re-encoding to %s (%s) the index reads %s, expected %s"
                                    % (v, how, k, "the most frequent value" if w is None else w, via, got.tolist(), exp.tolist()),
                                    dict(desc, reencode=w, via=via), cls="C05-history")
                    return
        # the cube over the index with that history equals the cube over the fresh one, whatever the common
        for w in range(0, top + 1):
            j = ix.copy()
            j.shift_common(w)
            a = ccube([j], interacting_shape=(top + 1,)).count()
            b = ccube([fresh], interacting_shape=(top + 1,)).count()
            ctx.evaluations += 1
            if not np.array_equal(np.asarray(a), np.asarray(b), equal_nan=True):
                ctx.oracle_fail("count cube over an index with the history shift_common(%d), %s of %d, shift_common(%d) = %s, over a "
                                "freshly built index %s" % (v, how, k, w, np.asarray(a).tolist(), np.asarray(b).tolist()),
                                dict(desc, reencode=w), cls="C05-history")
                return
    except Exception as e:
        ctx.oracle_fail("history raised %s: %s" % (type(e).__name__, str(e)[:80]), desc, cls="C05-raises")


def far_common_inferred_shape(ctx):
    """a dimension re-expressed with a common value NO row holds and that lies well above every category (max + 2, max + 5),
    the cube left to INFER its shape: the result covers more categories, the cells the unshifted cube has are the same and the
    additional ones are missing"""
    from catii import ccube
    for rep in range(ctx.n(4)):
        case = A.gen_case(ctx.rng, multi_axis=(rep % 2 == 1), k=ctx.rng.choice([1, 2]), N=ctx.rng.choice([5, 9]))
        dense, commons = case["dense"], case["commons"]
        idxs = [G.make_index(d, c) for d, c in zip(dense, commons)]
        for a, (d, ix) in enumerate(zip(dense, idxs)):
            if len(ix.shape) > 2:
                continue
            top = int(max([int(v) for v in np.unique(d).tolist()] + [int(ix.common)]))
            for v in (top + 2, top + 5):
                for func in A.FUNCS:
                    desc = A.small_desc(case, {"func": func, "dim": a, "v": v, "shape": "inferred"})
                    ctx.case(desc, nontrivial=case["N"] > 0)
                    ctx.hit("far_common_inferred_shape")
                    try:
                        bv, bm = A.call(ccube(idxs), func, case, ("pair", 0))
                    except Exception as e:
                        ctx.hit("far_common_baseline_raised:" + type(e).__name__)
                        continue
                    try:
                        sh = ix.copy()
                        sh.shift_common(v)
                        dims2 = list(idxs)
                        dims2[a] = sh
                        sv, sm = A.call(ccube(dims2), func, case, ("pair", 0))
                    except Exception as e:
                        ctx.oracle_fail("ccube.%s with an inferred shape raised %s: %s after dimension %d was re-expressed with the unused "
                                        "common value %d" % (func, type(e).__name__, str(e)[:60], a, v), desc, cls="C05-raises")
                        continue
                    sv, sm, bv, bm = np.asarray(sv), np.asarray(sm), np.asarray(bv), np.asarray(bm)
                    if sv.ndim != bv.ndim or any(x < y for x, y in zip(sv.shape, bv.shape)):
                        ctx.oracle_fail("%s: shape %s after re-expressing dimension %d with common %d, %s before" % (func, sv.shape, a, v, bv.shape),
                                        desc, cls="C05-differs")
                        continue
                    inner = tuple(slice(0, n) for n in bv.shape)
                    same_missing = np.array_equal(sm[inner], bm)
                    vals_ok = same_missing and (np.all(np.abs(sv[inner][~bm] - bv[~bm]) <= 1e-9 * A.grand_total(case, func)) if case["general"]
                                                else np.array_equal(sv[inner][~bm], bv[~bm]))
                    outer = np.ones(sv.shape, dtype=bool)
                    outer[inner] = False
                    if not same_missing or not vals_ok or not np.all(sm[outer]):
                        ctx.oracle_fail("%s (inferred shape): after dimension %d was re-expressed with the unused common value %d the cells "
                                        "differ (%s)" % (func, a, v, "missing set" if not same_missing else "values" if not vals_ok else
                                                         "a cell outside the data is reported"), desc, cls="C05-differs")


def run(ctx):
    core.load_catii()
    reqs, pend = [], []
    for _ in range(ctx.n(40)):
        emptied_history(ctx)
    far_common_inferred_shape(ctx)
    # three one-axis dimensions on every run (each one - first, middle, last - goes through every common value, rare and absent
    # ones included): the walk treats the first, the middle and the last dimension differently
    for rep in range(3):
        case = A.gen_case(ctx.rng, multi_axis=False, k=3, N=(9, 5, 13)[rep])
        ctx.hit("three_one_axis_dims")
        check(ctx, case, reqs, pend)
    for it in range(ctx.n(14)):
        case = A.gen_case(ctx.rng, multi_axis=ctx.rng.random() < 0.3, k=ctx.rng.choice([1, 2, 2, 3]),
                          N=ctx.rng.choice([0, 1, 3, 5, 9]), general=(it % 4 == 3))
        if case["general"]:
            ctx.hit("general_stream")
        if it < 3:
            # a multi-column dimension one of whose columns holds the stored common value on EVERY row (no entry at all for
            # that column): re-expressing it must still materialise that column
            for _try in range(40):
                case = A.gen_case(ctx.rng, multi_axis=True, k=ctx.rng.choice([1, 2]), N=ctx.rng.choice([5, 9]))
                if any(d.ndim == 2 and d.shape[1] >= 1 for d in case["dense"]):
                    break
            for j, d in enumerate(case["dense"]):
                if d.ndim == 2 and d.shape[1] >= 1:
                    d[:, ctx.rng.randrange(d.shape[1])] = case["commons"][j]
                    ctx.hit("all_common_column")
                    break
        check(ctx, case, reqs, pend)
    for _ in range(ctx.n(9)):       # residue stream: inexact weight sums; empty cells must stay missing after differencing
        case = (A.residue_case(ctx.rng) if _ % 3 == 0 else
                A.gen_case(ctx.rng, k=2, N=ctx.rng.choice([9, 14, 25]), general="residue"))
        case["ignore"] = True if _ % 2 else case["ignore"]
        ctx.hit("residue_stream")
        check(ctx, case, reqs, pend)
    if ctx.oracle_only:
        return
    for (desc, counts), m in zip(pend, ctx.model.run(reqs)):
        if m.get("counts") != counts:
            ctx.corr_fail("count cube of the shifted dims: impl %s model %s" % (counts[:20], str(m.get("counts", m))[:80]), desc)


def replay(ctx, rep):
    return True
