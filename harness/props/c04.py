"""C04 — the missing-cell rule and the three missing-value report formats agree."""
import itertools
from fractions import Fraction

import numpy as np

import agg_common as A
import core
import gen_cube as G

ID = "C04"
LEAN_MODULES = ["CatiiProps.C04"]
USES_TRANSLATOR = ['missing_rule']   # Gen/MissingGen.lean: the output_is_missing expressions of every reduce (tools/translate_missing.py)
RULE = ("cases of C03 (dyadic stream; every fifth case arbitrary doubles, where rounding residues of the differencing must "
        "not change the missing set; every second case passes the SAME fact/weights objects to all calls) x every aggregate x both cube types x return_missing_as in {NaN, (0,False), "
        "(-1,False), (0.5,False), plain 0}; checked: the per-cell missing rule against a direct computation over the "
        "rows of the cell (no rows / any-or-all rows missing / mean with zero valid weight), equality of the missing sets "
        "across formats, identical values off the missing set, sentinel / replacement value on it; excluded as "
        "documented: valid_count with a plain replacement under propagation. Non-trivial = some cell missing and some "
        "not; distinct by (case, aggregate, cube type)")
ASSUMPTIONS = ["as C03 (exact dyadic stream)"]


def slices_1d(dense):
    if dense.ndim == 1:
        return [((), dense)]
    return [(hi, dense[(slice(None),) + hi]) for hi in itertools.product(*[range(e) for e in dense.shape[1:]])]


def check(ctx, case, reqs, pend):
    from catii import ccube, xcube
    dense, commons, N = case["dense"], case["commons"], case["N"]
    if not dense:
        return
    idxs = [G.make_index(d, c) for d, c in zip(dense, commons)]
    multi = any(d.ndim > 1 for d in dense)
    K = case["K"]
    cc = ccube(idxs)
    ishape = tuple(int(x) for x in cc.interacting_shape)
    xc = xcube([d.astype(np.int64) for d in dense], interacting_shape=ishape)
    for func in A.FUNCS:
        cols = [None] if (K is None or func == "count") else list(range(K))
        for kind, cube in (("ccube", cc), ("xcube", xc)):
            desc = A.small_desc(case, {"func": func, "cube": kind})
            outs = {}
            try:
                for ret in A.RETS:
                    outs[ret] = A.call(cube, func, case, ret)
            except Exception as e:
                ctx.case(desc)
                ctx.oracle_fail("%s.%s raised %s: %s" % (kind, func, type(e).__name__, str(e)[:80]), desc, cls="C04-raises")
                continue
            if kind == "ccube":
                # the same aggregate through the other way of building it (the cube's shortcut method with its default
                # tracing=True / an ffunc object built with tracing=False and handed to calculate) must report the same
                # missing cells and the same values
                try:
                    v2, m2 = A.call(cube, func, dict(case, untraced=not case.get("untraced")), ("pair", 0))
                    v1, m1 = outs[("pair", 0)]
                    ctx.hit("ccube_traced_vs_untraced")
                    if not (np.array_equal(m1, m2) and np.array_equal(v1[~m1], v2[~m2])):
                        ctx.oracle_fail("ccube.%s: built with tracing=%s the aggregate reports missing cells %s, built with "
                                        "tracing=%s it reports %s" % (func, not case.get("untraced"), np.argwhere(m1).tolist()[:4],
                                                                      bool(case.get("untraced")), np.argwhere(m2).tolist()[:4]),
                                        desc, cls="C04-rule")
                except Exception as e:
                    ctx.oracle_fail("ccube.%s (ffunc object, other tracing setting) raised %s: %s" % (func, type(e).__name__, str(e)[:80]),
                                    desc, cls="C04-raises")
            nan_v, nan_m = outs[("nan", None)]
            ctx.case(desc, nontrivial=bool(nan_m.any()) and not bool(nan_m.all()))
            ctx.hit("%s.%s" % (kind, func))
            if nan_m.any():
                ctx.hit("has_missing_cells")
            # (1) the rule, cell by cell, from the rows of the cell
            per_dim = [slices_1d(d) for d in dense]
            for combo in itertools.product(*per_dim):
                js = tuple(e for hi, _ in combo for e in hi)
                cols1d = [c for _, c in combo]
                for col in cols:
                    exp = A.direct_cells(case, func, cols1d, ishape, col)
                    for cell, (val, missing) in exp.items():
                        idx = js + cell + (() if col is None else (col,))
                        if bool(nan_m[idx]) != missing:
                            rows = [r for r in range(N) if all(int(c[r]) == v for c, v in zip(cols1d, cell))]
                            ctx.oracle_fail("%s.%s cell %s is %s, but its rows %s make it %s" % (
                                kind, func, idx, "missing" if nan_m[idx] else "reported", rows[:8],
                                "missing" if missing else "not missing"), desc, cls="C04-rule")
                            break
            # (2) the formats describe the same missing cells and identical values elsewhere
            for ret in A.RETS:
                v, m = outs[ret]
                excluded = (func == "valid_count" and ret[0] == "plain" and not case["ignore"])
                if v.shape != nan_v.shape:
                    ctx.oracle_fail("%s.%s: format %s has shape %s, NaN format %s" % (kind, func, ret, v.shape, nan_v.shape),
                                    desc, cls="C04-formats")
                    continue
                if m is not None and not np.array_equal(m, nan_m):
                    bad = tuple(int(x) for x in np.argwhere(m != nan_m)[0])
                    ctx.oracle_fail("%s.%s: cell %s is %s in format %s but %s in the NaN format" % (
                        kind, func, bad, "missing" if m[bad] else "valid", ret, "missing" if nan_m[bad] else "valid"),
                        desc, cls="C04-formats")
                    continue
                if excluded:
                    ctx.hit("excluded_valid_count_plain_propagate")
                    continue
                if ret[0] == "plain" and nan_m.any() and not np.all(v[nan_m] == ret[1]):
                    # the plain replacement value is the only way this format has of saying "missing"
                    bad = tuple(int(x) for x in np.argwhere(nan_m & (v != ret[1]))[0])
                    ctx.oracle_fail("%s.%s: cell %s is missing in the NaN and (sentinel, False) formats but holds %r, not the "
                                    "replacement value %r, in the plain format" % (kind, func, bad, v[bad], ret[1]), desc, cls="C04-formats")
                    continue
                off = ~nan_m
                if not np.array_equal(v[off], nan_v[off]):
                    ctx.oracle_fail("%s.%s: values differ between format %s and the NaN format off the missing cells" % (
                        kind, func, ret), desc, cls="C04-formats")
            # model: rendering of every format (one-axis dims)
            if multi or case["general"] or int(np.prod([s + 1 for s in ishape])) > 120:
                continue
            for ret in A.RETS:
                if func == "valid_count" and ret[0] == "plain" and not case["ignore"]:
                    continue
                for col in cols:
                    spec = A.model_spec(case, func, col, ret, tol=(kind == "ccube"))
                    if kind == "ccube":
                        reqs.append(dict(spec, op="agg", kind="ccube", N=N, shape=list(ishape), dims=G.dims_to_model(idxs)))
                    else:
                        reqs.append(dict(spec, op="agg", kind="xcube", N=N, shape=list(ishape),
                                         dense=[[int(x) for x in d.tolist()] for d in dense]))
                    v, m = outs[ret]
                    gv = v if col is None else v[..., col]
                    gm = None if m is None else (m if col is None else m[..., col])
                    pend.append((desc, ret, gv.reshape(-1).tolist(), None if gm is None else gm.reshape(-1).tolist()))


def run(ctx):
    core.load_catii()
    reqs, pend = [], []
    for it in range(ctx.n(45)):
        case = A.gen_case(ctx.rng, multi_axis=ctx.rng.random() < 0.25, k=ctx.rng.choice([1, 1, 2, 2, 3]),
                          N=ctx.rng.choice([1, 2, 3, 5, 8, 13]), general=(it % 5 == 4))
        if it % 2:
            case["share_args"] = True      # one fact / weights object re-used for every call of the case
            ctx.hit("shared_argument_objects")
        if case["general"]:
            ctx.hit("general_stream")
        check(ctx, case, reqs, pend)
    for _ in range(ctx.n(16)):       # whole categories missing: cells without a valid row next to cells without a missing one
        case = A.by_category_missing(ctx.rng, A.gen_case(ctx.rng, k=ctx.rng.choice([1, 2, 2, 3]), N=ctx.rng.choice([3, 5, 8, 13])))
        ctx.hit("by_category_missing")
        check(ctx, case, reqs, pend)
    for _ in range(ctx.n(8)):       # residue stream: inexact weight sums; empty cells must stay missing after differencing
        case = (A.residue_case(ctx.rng) if _ % 2 == 0 else
                A.gen_case(ctx.rng, k=2, N=ctx.rng.choice([9, 14, 25]), general="residue"))
        case["ignore"] = True if _ % 2 else case["ignore"]
        ctx.hit("residue_stream")
        check(ctx, case, reqs, pend)
    # one wide dimension alone (129 .. 255 and 257+ categories): the array cube's coordinates live in uint8 / uint16 there,
    # and whatever a fill routine computes FROM the coordinates (pairs, offsets) must not wrap; rows sit at both ends
    for ext in ((200,), (255,), (130,), (300,), (129, 2)) + (((40000,),) if ctx.tier == "thorough" else ()):
        for ign in (False, True):
            for _try in range(60):      # one-column facts under propagation, several columns when ignoring: on every run
                case = A.gen_case(ctx.rng, wide="u16" if max(ext) > 256 else "u8", wide_extents=ext)
                if (case["K"] is None) == (not ign) and 0 < int(np.count_nonzero(~case["fact_valid"])) < case["fact_valid"].size:
                    break
            case["ignore"] = ign
            ctx.hit("wide_extents_fixed")
            check(ctx, case, reqs, pend)
    # ONE fact array object (NaN-marked, float, unweighted) handed to every call of the case - index cube first, then the array
    # cube, every aggregate, every format: a call that writes into it changes what the later ones see.  On every run.
    for rep in range(4):
        for _try in range(60):
            case = A.gen_case(ctx.rng, k=ctx.rng.choice([1, 2]), N=ctx.rng.choice([8, 13]))
            nv = int(np.count_nonzero(~case["fact_valid"]))
            if 0 < nv < case["fact_valid"].size:
                break
        case["fact_form"] = "nan"
        case["fact_vals"] = case["fact_vals"].astype(float)
        case["weights"] = None
        case["ignore"] = rep % 2 == 1
        case["share_args"] = True
        ctx.hit("shared_nan_marked_fact")
        check(ctx, case, reqs, pend)
    from props import c03
    c03.tiny_weights(ctx, prefix="C04")     # a mean is missing when the valid weights sum to ZERO - not when they are merely small
    if ctx.oracle_only:
        return
    for (desc, ret, gv, gm), m in zip(pend, ctx.model.run(reqs)):
        if "cells" not in m:
            ctx.corr_fail("model %s" % m, desc)
            continue
        for i, cell in enumerate(m["cells"]):
            shown = None if cell["shown"] is None else float(Fraction(cell["shown"][0], cell["shown"][1]))
            g = gv[i]
            # what a missing cell holds (NaN / sentinel / replacement, possibly truncated by an integer region dtype)
            # is not part of the property; values are compared off the missing cells, flags everywhere
            same_val = cell["missing"] or (shown is not None and g == g and float(g) == shown)
            if ret[0] == "nan":
                same_val = same_val and ((g != g) == cell["missing"])
            same_valid = gm is None or (not gm[i]) == cell["valid"]
            if not (same_val and same_valid):
                ctx.corr_fail("format %s cell #%d: impl shows %r (missing=%s), model shows %s (valid=%s)" % (
                    ret, i, g, None if gm is None else gm[i], shown, cell["valid"]), desc)
                break


def replay(ctx, rep):
    return True
