"""C07 — every operation preserves index well-formedness."""
import core
import hist

ID = "C07"
LEAN_MODULES = ["CatiiProps.C07"]
USES_TRANSLATOR = ['validate', 'shift_to', 'append', 'filtered']   # Gen/ValidateGen.lean: iindex.validate(True) as a predicate (tools/translate_validate.py); Gen/ShiftGen.lean (tools/translate_shift.py)
RULE = ("same histories as C06; after EVERY step the library's validate(True) plus the range / arity / non-emptiness / "
        "dtype / int-coordinate conditions it does not check, and the derived facts (abscissae = values occurring, "
        "sparsity); the model's decidable wf predicate is evaluated on the same result; plus long sparse many-valued inputs (300-900 rows) "
        "through from_array / collapsed / filtered (masks keeping 70 %, 10 %, 2 % of the rows or only a short tail, compared with a[mask]), which select the per-row scan strategy. Non-trivial and distinct as C06")
ASSUMPTIONS = ["entry-wise set updates are generated within their documented use (union only adds rows currently common)"]


def run(ctx):
    hist.drive(ctx, "C07")
    read_then_edit(ctx)
    # INDX round trip and construction from arrays also produce well-formed indexes
    import numpy as np
    import gen_cube as G
    import idx_common as I
    import indx_common as X
    from catii import iindex
    ld = X.Loader()
    try:
        for _ in range(ctx.n(40)):
            ix, a = I.gen_index(ctx.rng, ndim=ctx.rng.choice([1, 2]))
            ents = [[list(k), v.tolist()] for k, v in dict.items(ix)]
            if ix.common < 0 or any(c < 0 for k, _ in ents for c in k):
                continue
            sv = X.impl_save(ents, int(ix.common))
            if sv[0] != "ok":
                continue
            lo = ld.load(sv[1])
            ctx.case({"indx_roundtrip_of": I.to_json(ix)})
            ctx.hit("op:indx_roundtrip")
            if lo[0] == "ok":
                re = iindex(dict(lo[4]), lo[2], ix.shape)
                for p in I.wf_problems(re):
                    ctx.oracle_fail("index rebuilt from INDX: " + p, {"pre": I.to_json(ix), "op": "indx"}, cls="C07-indx")
            if a.size == 0:
                continue   # from_array refuses to guess a common value for an empty array (documented ValueError)
            ix2 = iindex.from_array(a)
            ctx.hit("op:from_array")
            for p in I.wf_problems(ix2):
                ctx.oracle_fail("from_array result: " + p, {"array": a.tolist(), "op": "from_array"}, cls="C07-from-array")
        # reindexed with merging mappings under every option combination, exhaustively on small arrays: merged row-id
        # lists interleave, and `assume_unique=True` (always a true promise on a well-formed index) skips the de-duplication
        import itertools
        for vals in itertools.product(range(3), repeat=4):
            a = np.array(vals, dtype=np.int64)
            for shape in ((4,), (2, 2)):
                arr = a.reshape(shape)
                for common in (0, 2):
                    for tgt in (1, 5):
                        for au, cp in ((True, True), (True, False), (False, True)):
                            ix = G.make_index(arr, common)
                            other = [v for v in (0, 1, 2) if v != common]
                            mapping = {other[0]: tgt, other[1]: tgt}
                            res = ix.reindexed(dict(mapping), copy=cp, assume_unique=au)
                            ctx.hit("op:reindexed_merge")
                            ctx.evaluations += 1
                            want = I.np_reindexed(arr, mapping, common)
                            probs = I.wf_problems(res)
                            if not probs and not np.array_equal(I.dense_of(res), want):
                                probs = ["dense content %s, expected %s" % (I.dense_of(res).tolist(), want.tolist())]
                            for p in probs:
                                ctx.oracle_fail("reindexed(%s, copy=%s, assume_unique=%s) of %s (common %d): %s" % (
                                    mapping, cp, au, arr.tolist(), common, p),
                                    {"array": arr.tolist(), "common": common, "mapping": [[k, v] for k, v in mapping.items()],
                                     "copy": cp, "assume_unique": au, "op": "from_array"}, cls="C07-reindexed")
        ctx.exhaustive.append("reindexed: all length-4 arrays over 3 values as (4,) and (2,2), commons 0/2, the two listed values "
                              "merged into 1 or 5, (assume_unique, copy) in {TT, TF, FT}")
        # long, sparse, many-valued inputs: the per-row scan strategy of from_array (also reached by collapsed,
        # filtered and append through their final from_array / shift_common)
        for _ in range(ctx.n(12)):
            N = ctx.rng.choice([300, 500, 900])
            ncol = ctx.rng.choice([None, 1, 2, 3])
            nvals = ctx.rng.randrange(5, 9)
            vals = [0] + ctx.rng.sample(range(1, 40), nvals - 1)
            shape = (N,) if ncol is None else (N, ncol)
            n = int(np.prod(shape))
            a = np.zeros(n, dtype=np.int64)
            for pos in ctx.rng.sample(range(n), max(2, n // ctx.rng.choice([30, 60, 120]))):
                a[pos] = ctx.rng.choice(vals[1:])
            a = a.reshape(shape)
            ctx.case({"from_array_scan": {"shape": list(shape), "distinct": vals}})
            ctx.hit("op:from_array_scan")
            big = iindex.from_array(a)
            for p in I.wf_problems(big):
                ctx.oracle_fail("from_array (long sparse input): " + p, {"shape": list(shape), "distinct": vals, "op": "from_array"},
                                cls="C07-from-array")
            if ncol is not None and ncol >= 2:
                prec = vals[1:] + [0]
                ctx.rng.shuffle(prec)
                ctx.hit("op:collapsed_scan")
                res = G.make_index(a, 0).collapsed(list(prec))
                for p in I.wf_problems(res):
                    ctx.oracle_fail("collapsed (long sparse input): " + p, {"shape": list(shape), "precedence": prec, "op": "from_array"},
                                    cls="C07-collapsed")
            # filters of long indexes that keep most rows, few rows (many more dropped than kept: every renumbering
            # counter crosses 2^8 while the result stays short), or only rows near the end
            for keep in (0.7, 0.1, 0.02, "tail"):
                if keep == "tail":
                    mask = np.zeros(N, dtype=bool)
                    mask[N - ctx.rng.randrange(3, 120):] = True
                    for r in ctx.rng.sample(range(N), 5):
                        mask[r] = not mask[r]
                else:
                    mask = np.array([ctx.rng.random() < keep for _r in range(N)], dtype=bool)
                # make sure some uncommon cell survives behind many dropped rows
                rows_uncommon = np.nonzero(a.reshape(N, -1).any(axis=1))[0]
                if len(rows_uncommon):
                    mask[int(rows_uncommon[-1])] = True
                ctx.hit("op:filtered_scan")
                ctx.hit("filtered_keep:%s" % keep)
                ctx.evaluations += 1
                src = G.make_index(a, 0)
                try:
                    res = src.filtered(mask, int(mask.sum()))
                    probs = I.wf_problems(res)
                    if not probs and not np.array_equal(I.dense_of(res), a[mask]):
                        probs = ["dense content differs from a[mask]"]
                except Exception as e:
                    probs = ["raised %s: %s" % (type(e).__name__, str(e)[:80])]
                for p in probs:
                    ctx.oracle_fail("filtered (long sparse input, %d of %d rows kept): %s" % (int(mask.sum()), N, p),
                                    {"shape": list(shape), "keep": str(keep), "op": "from_array"}, cls="C07-filtered")
    finally:
        ld.close()


def read_then_edit(ctx):
    """a history in which the live index is READ with force (its common rows are computed), then edited in place so that the
    common value, the row count, the number of entries and the number of listed row ids all stay the same while the listed
    rows change, and then needs its common rows again (shift_common to a third value; being appended to an index with
    another common value)"""
    import numpy as np
    import gen_cube as G
    import idx_common as I
    for a0 in ([0, 1, 0, 2, 0, 1], [5, 5, 1, 5, 2, 1, 5], [0, 3, 0, 0, 3, 4]):
        for reader in ("get", "items", "common_rowids", "to_dict"):
            for finish in ("shift_common", "append"):
                a = np.array(a0, dtype=np.int64)
                vals, cnts = np.unique(a, return_counts=True)
                common = int(vals[int(np.argmax(cnts))])
                ix = G.make_index(a, common)
                other_vals = [int(v) for v in vals if v != common]
                v1 = other_vals[0]
                r_common = int(np.nonzero(a == common)[0][0])
                r_v1 = int(np.nonzero(a == v1)[0][0])
                desc = {"read_then_edit": a0, "reader": reader, "finish": finish}
                ctx.case(desc, nontrivial=True)
                ctx.hit("read_then_edit")
                try:
                    if reader == "get":
                        ix.get((common,), force=True)
                    elif reader == "items":
                        list(ix.items(force=True))
                    elif reader == "common_rowids":
                        ix.common_rowids()
                    else:
                        ix.to_dict(force=True)
                    # swap the two cells: counts per value, entries and listed totals are unchanged
                    ix.update({(common,): np.array([r_v1], dtype=np.uint32), (v1,): np.array([r_common], dtype=np.uint32)})
                    a[r_v1], a[r_common] = common, v1
                    if finish == "shift_common":
                        third = other_vals[-1] if other_vals[-1] != v1 else int(vals.max()) + 1
                        ix.shift_common(third)
                        res, exp = ix, a
                    else:
                        target = G.make_index(np.array([v1, v1, common], dtype=np.int64), v1)
                        target.append(ix)
                        res, exp = target, np.concatenate([np.array([v1, v1, common], dtype=np.int64), a])
                    probs = I.wf_problems(res)
                    if not probs and not np.array_equal(I.dense_of(res), exp):
                        probs = ["dense content %s, expected %s" % (I.dense_of(res).tolist(), exp.tolist())]
                except Exception as e:
                    probs = ["raised %s: %s" % (type(e).__name__, str(e)[:80])]
                for pr in probs:
                    ctx.oracle_fail("read (%s, force) - swap two cells with update - %s: %s" % (reader, finish, pr), desc, cls="C07-history")


def replay(ctx, rep):
    import idx_common as I
    import random
    core.load_catii()
    c = rep["case"]
    if "pre" not in c or c.get("op") in ("indx", "from_array") or "read_then_edit" in c:
        return True
    for seed in range(200):
        ix = I.from_json(c["pre"])
        st, _, _ = hist.apply_step(random.Random(seed), ix, I.dense_of(ix), c["op"])
        if any(f[0] == "C07" for f in st.fails):
            return False
    return True
