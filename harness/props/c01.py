"""C01 — array -> inverted index -> array is lossless, for every construction option and strategy."""
import itertools
import json
import os
import subprocess

import numpy as np

import core
import idx_common as I

ID = "C01"
LEAN_MODULES = ["CatiiProps.C01"]
USES_TRANSLATOR = ['fit_dtype', 'to_array']   # Gen/FitDtype.lean (the dtype ladder); Gen/ToArrayGen.lean: the 'not mapping' branch of to_array (tools/translate_toarray.py)
RULE = ("exhaustive: all 1-D arrays of length <=5 and all 3x2 arrays over {0,1,2} x option grid (common omitted / each "
        "present value / an absent one; counts omitted / exact; mapping omitted / injective / many-to-one; input in C / Fortran order, as a transposed, strided or reversed view) x way back "
        "(dtype=int64 / default dtype / mapping); random: N in 0..400, 1..4 columns, alphabets of 1..4 values or >=5 "
        "values with <5% uncommon cells and N>=80 (forces the row-scan strategy), magnitudes at every dtype boundary "
        "incl. negatives down to -2^63; huge values without counts run in a memory-limited subprocess. Non-trivial = at "
        "least one uncommon cell; distinct by (array, options)")
ASSUMPTIONS = ["from_array with zero rows, no common and no mapping is a documented refusal (ValueError), outside the quantifier"]

BOUNDS = [0, 1, 127, 128, 255, 256, 32767, 32768, 65535, 65536, 2**31 - 1, 2**31, 2**32 - 1, 2**32, 2**62,
          -1, -128, -129, -32768, -32769, -2**31, -2**31 - 1, -2**63, 2**63 - 1]


def options_for(rng, a, exhaustive=False):
    present = sorted(set(a.reshape(-1).tolist()))
    absent = [v for v in (0, 1, 2, 3, 99, -7) if v not in present][:1]
    commons = [None] + present[:3] + absent
    opts = []
    for common in commons:
        for use_counts in (False, True):
            for mk in ("none", "injective", "many_to_one"):
                opts.append((common, use_counts, mk))
    if not exhaustive:
        opts = [rng.choice(opts) for _ in range(3)]
    return opts


def build_mapping(rng, a, common, kind):
    keys = sorted(set(a.reshape(-1).tolist()) | ({common} if common is not None else set()))
    if kind == "none":
        return None
    if kind == "injective":
        tg = rng.sample(range(-3, 40), len(keys))
        return dict(zip(keys, tg))
    return {k: rng.choice([0, 1, 7]) for k in keys}


def relayout(rng, a):
    """the same values in another memory layout (Fortran order, a transposed view, a strided or reversed view)"""
    kind = rng.choice(["c", "c", "f", "transposed_view", "strided", "reversed"])
    if a.size == 0 or kind == "c":
        return a, "c"
    if a.ndim == 2 and kind == "f":
        return np.asfortranarray(a), kind
    if a.ndim == 2 and kind == "transposed_view":
        return np.ascontiguousarray(a.T).T, kind
    if kind == "strided":
        if a.ndim == 1:
            buf = np.full(2 * a.shape[0], -77 if a.dtype.kind == "i" else 1, dtype=a.dtype)
            buf[::2] = a
            return buf[::2], kind
        buf = np.full((a.shape[0], 2 * a.shape[1]), -77 if a.dtype.kind == "i" else 1, dtype=a.dtype)
        buf[:, ::2] = a
        return buf[:, ::2], kind
    if kind == "reversed":
        return np.ascontiguousarray(a[::-1])[::-1], kind
    return a, "c"


def one(ctx, a, common, use_counts, mk, reqs, pend, force_no_model=False):
    from catii import iindex
    a_values = a
    if a.size and a.dtype == np.int64 and ctx.rng.random() < 0.35:
        # the same values stored as bool / (u)int8..64: callers rarely hold int64
        a, storage = I.storage_variant(ctx.rng, a)
    else:
        storage = str(a.dtype)
    ctx.hit("storage:" + storage)
    a, layout = relayout(ctx.rng, a)
    assert np.array_equal(a.astype(np.int64) if a.dtype != np.uint64 else a, a_values)
    ctx.hit("layout:" + layout)
    stored, a = a, a_values          # `stored` goes to the library; mappings, counts, expectations are built from the values
    mapping = build_mapping(ctx.rng, a, common, mk)
    counts = None
    if use_counts:
        v, c = np.unique(a.reshape(-1), return_counts=True)
        pairs = list(zip([int(x) for x in v.tolist()], [int(x) for x in c.tolist()]))
        # a caller's counts come in the caller's key order: ascending (numpy.unique), first appearance (Counter),
        # most frequent first (Counter.most_common), descending, or any other
        order = ctx.rng.choice(["ascending", "ascending", "first-appearance", "most-common", "descending", "shuffled"])
        if order == "first-appearance":
            seen = []
            for x in a.reshape(-1).tolist():
                if int(x) not in seen:
                    seen.append(int(x))
            d0 = dict(pairs)
            pairs = [(k, d0[k]) for k in seen]
        elif order == "most-common":
            pairs.sort(key=lambda kv: -kv[1])
        elif order == "descending":
            pairs.reverse()
        elif order == "shuffled":
            ctx.rng.shuffle(pairs)
        ctx.hit("counts_order:" + order)
        counts = dict(pairs)
    if a.size == 0 and common is None and not mapping:
        return
    desc = {"array": a.tolist() if a.size <= 40 else {"shape": list(a.shape), "distinct": sorted(set(a.reshape(-1).tolist()))[:8]},
            "common": common, "counts": use_counts, "mapping": mapping}
    mapped = a if mapping is None else np.vectorize(lambda x: mapping[int(x)], otypes=[np.int64])(a) if a.size else a
    kw = {}
    if counts is not None:
        kw["counts"] = counts
    if common is not None:
        kw["common"] = common
    if mapping is not None:
        kw["mapping"] = mapping
    uncommon = int(a.size)
    ctx.hit("common:" + ("omitted" if common is None else "present" if common in a else "absent"))
    ctx.hit("counts:" + ("supplied" if use_counts else "omitted"))
    ctx.hit("mapping:" + mk)
    try:
        ix = iindex.from_array(stored, **kw)
    except Exception as e:
        ctx.case(desc)
        ctx.oracle_fail("from_array raised %s: %s" % (type(e).__name__, str(e)[:100]), desc, cls="C01-from-array-raises")
        return
    nlisted = sum(len(v) for v in dict.values(ix))
    ctx.case(desc, nontrivial=nlisted > 0)
    # which strategy ran (mirrors the documented switch; only for the coverage statistics)
    ncounts = len(counts) if counts is not None else len(set(a.reshape(-1).tolist()))
    ctx.hit("distinct>=5" if ncounts >= 5 else "distinct<5")
    back = [("int64", dict(dtype=np.int64)), ("default", {})]
    m2 = None
    if ctx.rng.random() < 0.5:
        vals = sorted(set(mapped.reshape(-1).tolist()) | {int(ix.common)})
        m2 = {v: ctx.rng.randrange(-5, 300) for v in vals}
        back.append(("mapping", dict(mapping=m2)))
    for name, bk in back:
        try:
            out = ix.to_array(**bk)
        except Exception as e:
            ctx.oracle_fail("to_array(%s) raised %s: %s" % (name, type(e).__name__, str(e)[:80]), desc,
                            cls="C01-to-array-raises")
            continue
        exp = mapped
        if name == "mapping":
            exp = np.vectorize(lambda x: m2[int(x)], otypes=[np.int64])(mapped) if mapped.size else mapped
        same_shape = tuple(out.shape) == tuple(exp.shape)
        same = same_shape and all(int(x) == int(y) for x, y in zip(out.reshape(-1).tolist(), exp.reshape(-1).tolist()))
        if not same:
            bad = [i for i, (x, y) in enumerate(zip(out.reshape(-1).tolist(), exp.reshape(-1).tolist())) if int(x) != int(y)][:3]
            ctx.oracle_fail("round trip via to_array(%s) differs (shape %s vs %s; first differing flat positions %s: got %s "
                            "expected %s)" % (name, out.shape, exp.shape, bad, [out.reshape(-1).tolist()[i] for i in bad],
                                              [exp.reshape(-1).tolist()[i] for i in bad]), desc, cls="C01-roundtrip")
    for p in I.wf_problems(ix):
        ctx.oracle_fail("from_array result is not well-formed: " + p, desc, cls="C01-not-wf")
    # a caller builds several indexes from the same array with the SAME counts / mapping objects (other commons)
    if counts is not None or mapping is not None:
        for c2 in ([None] if common is not None else []) + [(int(mapped.max(initial=0)) + 1 if abs(int(mapped.max(initial=0))) < 2**62 else None) if mapping is None else None]:
            kw2 = dict(kw)
            kw2.pop("common", None)
            if c2 is None and common is None:
                continue
            if c2 is not None:
                if mapping is not None:
                    continue
                kw2["common"] = c2
            ctx.hit("same_option_objects_reused")
            try:
                out2 = iindex.from_array(stored, **kw2).to_array(dtype=np.int64)
            except Exception as e:
                if a.size == 0:
                    continue
                ctx.oracle_fail("a second from_array with the same counts/mapping objects raised %s: %s" % (
                    type(e).__name__, str(e)[:80]), dict(desc, second_common=c2), cls="C01-reuse")
                continue
            if tuple(out2.shape) != tuple(mapped.shape) or not np.array_equal(out2, mapped):
                ctx.oracle_fail("a second from_array call given the same counts/mapping objects no longer round-trips "
                                "(the first call changed them?)", dict(desc, second_common=c2), cls="C01-reuse")
    if force_no_model or a.size > 600:
        return
    req = {"op": "iidx", "m": "from_array", "arr": {"shape": list(a.shape), "data": [int(x) for x in a.reshape(-1).tolist()]},
           "counts": None if counts is None else [[k, v] for k, v in counts.items()], "common": common,
           "mapping": None if mapping is None else [[k, v] for k, v in mapping.items()]}
    reqs.append(req)
    pend.append((desc, I.canon(I.to_json(ix))))


def scan_path_array(rng, N=None):
    N = N or rng.choice([80, 120, 400])
    ncols = rng.choice([None, 1, 3])
    shape = (N,) if ncols is None else (N, ncols)
    size = int(np.prod(shape))
    vals = rng.sample(range(1, 40), rng.randrange(4, 8))
    a = np.zeros(size, dtype=np.int64) + rng.choice([0, 5])
    k = max(1, int(size * rng.choice([0.01, 0.03, 0.045])))
    pos = rng.sample(range(size), max(k, len(vals)))
    for i, p in enumerate(pos):
        a[p] = vals[i % len(vals)]
    return a.reshape(shape)


SUB = r'''
import sys, json, resource
resource.setrlimit(resource.RLIMIT_AS, (4 * 2**30, 4 * 2**30))
sys.path.insert(0, %r)
import core, numpy as np
core.load_catii()
from catii import iindex
out = []
for vals in json.loads(sys.stdin.read()):
    a = np.array(vals, dtype=np.int64)
    try:
        ix = iindex.from_array(a)
        back = ix.to_array()
        out.append(["ok", [int(x) for x in back.tolist()] == [int(x) for x in a.tolist()]])
    except BaseException as e:
        out.append(["raise", type(e).__name__ + ": " + str(e)[:60]])
print(json.dumps(out))
'''


def huge_values(ctx):
    """values >= 2^25 without counts: from_array falls back from bincount; run under an address-space limit"""
    cases = [[v, 0, 0, v] for v in (2**25, 2**31 - 1, 2**31, 2**32, 2**40, 2**62, 2**63 - 1)] + [[-2**63, 0, 2**63 - 1]]
    try:
        p = subprocess.run([core.PY, "-c", SUB % os.path.join(core.VERIF, "harness")], input=json.dumps(cases),
                           capture_output=True, text=True, timeout=300)
        res = json.loads(p.stdout.strip().split("\n")[-1])
    except Exception as e:
        raise core.Infra("huge-value subprocess failed: %s" % e)
    for vals, r in zip(cases, res):
        ctx.case({"array": vals, "common": None, "counts": False, "mapping": None})
        ctx.hit("huge_values")
        if r[0] != "ok":
            cls = "C01-huge-value-raises"
            if 2**63 - 1 in vals and "No values or common value" in r[1]:
                # numpy.bincount wraps max+1 to 0 bins at int64 max and returns []; from_array then sees no values
                cls = "C01-int64-max-bincount-wraps"
            ctx.oracle_fail("from_array/to_array raised %s" % r[1], {"array": vals}, cls=cls)
        elif not r[1]:
            ctx.oracle_fail("round trip differs for %s" % vals, {"array": vals}, cls="C01-roundtrip")


def extreme_steps(ctx):
    """values at both ends of the array's OWN (signed or unsigned) dtype, in orders whose steps exceed half the dtype's range:
    a difference, a sum or an offset computed in the array's dtype wraps there.  Round trip through to_array(dtype=int64 /
    uint64), library-chosen and caller-chosen common value, with and without supplied counts."""
    from catii import iindex
    for nm in ("int8", "int16", "int32", "int64", "uint8", "uint16", "uint32"):
        info = np.iinfo(nm)
        lo, hi = int(info.min), int(info.max)
        mid = (lo + hi) // 2
        patterns = [[hi - 27, hi - 27, lo + 28, lo + 28, lo + 28], [hi, lo, lo], [hi - 1, lo + 1, lo + 1, mid + 5],
                    [lo, lo, hi, hi, hi, lo], [mid, hi, lo, lo, mid, mid, mid], [hi, hi, hi, lo + 3, lo + 3, mid, mid, mid, mid]]
        for vals in patterns:
            stored = np.array(vals, dtype=nm)
            for common in (None, vals[-1]):
                for use_counts in (False, True):
                    if nm == "uint32" and not use_counts:
                        continue        # without counts the library bincounts up to the largest value: 2^32 bins, ten seconds a call
                    kw = {}
                    if common is not None:
                        kw["common"] = common
                    if use_counts:
                        v, c = np.unique(stored, return_counts=True)
                        kw["counts"] = {int(x): int(y) for x, y in zip(v.tolist(), c.tolist())}
                    desc = {"extreme_steps": vals, "dtype": nm, "common": common, "counts": use_counts}
                    ctx.case(desc, nontrivial=True)
                    ctx.hit("extreme_steps:" + nm)
                    try:
                        ix = iindex.from_array(stored.copy(), **kw)
                        got = ix.to_array(dtype=np.int64 if lo < 0 or hi < 2 ** 63 else np.uint64)
                    except Exception as e:
                        ctx.oracle_fail("from_array / to_array of %s values %s raised %s: %s" % (nm, vals, type(e).__name__, str(e)[:60]),
                                        desc, cls="C01-raises")
                        continue
                    if [int(x) for x in got.tolist()] != vals:
                        ctx.oracle_fail("round trip of the %s array %s gives %s" % (nm, vals, [int(x) for x in got.tolist()]), desc,
                                        cls="C01-roundtrip")


def run(ctx):
    core.load_catii()
    reqs, pend = [], []
    extreme_steps(ctx)
    # exhaustive small level
    n = 0
    for L in range(0, 6):
        for data in itertools.product(range(3), repeat=L):
            n += 1
            if ctx.scale == 1 and L >= 4 and n % 5 != ctx.seed % 5:
                continue
            a = np.array(data, dtype=np.int64)
            for (common, uc, mk) in options_for(ctx.rng, a, exhaustive=(L <= 3 or ctx.scale > 1)):
                one(ctx, a, common, uc, mk, reqs, pend)
    for data in itertools.product(range(3), repeat=6):
        n += 1
        if ctx.scale == 1 and n % 4 != ctx.seed % 4:
            continue
        a = np.array(data, dtype=np.int64).reshape(3, 2)
        for (common, uc, mk) in options_for(ctx.rng, a, exhaustive=ctx.scale > 1):
            one(ctx, a, common, uc, mk, reqs, pend)
    ctx.exhaustive.append("all 1-D arrays of length <=3 over {0,1,2} x full option grid; lengths 4,5 and 3x2 arrays sampled "
                          "1/5 and 1/4 per seed (fully in the thorough tier)")
    # random
    for _ in range(ctx.n(150)):
        kind = ctx.rng.choice(["small_alpha", "scan", "bounds", "bounds"])
        if kind == "scan":
            a = scan_path_array(ctx.rng)
            ctx.hit("scan_shaped")
        elif kind == "bounds":
            N = ctx.rng.choice([1, 2, 5, 30])
            ncols = ctx.rng.choice([None, 2])
            vals = ctx.rng.sample([b for b in BOUNDS if abs(b) < 2**24 or ctx.rng.random() < 0.0], ctx.rng.randrange(1, 5))
            shape = (N,) if ncols is None else (N, ncols)
            a = np.array(ctx.rng.choices(vals, k=int(np.prod(shape))), dtype=np.int64).reshape(shape)
            ctx.hit("boundary_values")
        else:
            N = ctx.rng.choice([0, 1, 3, 10, 50, 200])
            ncols = ctx.rng.choice([None, 1, 2, 4])
            shape = (N,) if ncols is None else (N, ncols)
            vals = ctx.rng.sample(range(-3, 12), ctx.rng.randrange(1, 5))
            a = np.array(ctx.rng.choices(vals, k=int(np.prod(shape))), dtype=np.int64).reshape(shape)
        for (common, uc, mk) in options_for(ctx.rng, a):
            one(ctx, a, common, uc, mk, reqs, pend)
    # large magnitudes with supplied counts (no bincount involved), in-process
    for _ in range(ctx.n(30)):
        vals = ctx.rng.sample(BOUNDS, ctx.rng.randrange(1, 5))
        a = np.array(ctx.rng.choices(vals, k=ctx.rng.choice([2, 6, 20])), dtype=np.int64)
        one(ctx, a, ctx.rng.choice([None, vals[0]]), True, ctx.rng.choice(["none", "injective"]), reqs, pend)
        ctx.hit("large_magnitudes_with_counts")
    # long scan-shaped inputs: row counts around and beyond 2^16 (any chunking, offset or counter of that size is crossed),
    # uncommon cells placed in every part of the range including the last rows
    for N in ((70000, 100000) if ctx.scale == 1 else (65535, 65536, 65537, 70000, 100000, 131072, 140000, 200003)):
        ncols = ctx.rng.choice([None, 2])
        shape = (N,) if ncols is None else (N, ncols)
        size = int(np.prod(shape))
        vals = ctx.rng.sample(range(1, 40), ctx.rng.randrange(5, 8))
        a = np.zeros(size, dtype=np.int64)
        pos = sorted(set([0, 1, size - 1, size - 2, size // 2, 65535, 65536, 65537 % size] +
                         [ctx.rng.randrange(size) for _ in range(max(10, size // 400))]))
        for i, q in enumerate(pos):
            a[q] = vals[i % len(vals)]
        a = a.reshape(shape)
        ctx.hit("long_scan_shaped")
        for (common, uc, mk) in [(None, False, "none"), (0, ctx.rng.random() < 0.5, ctx.rng.choice(["none", "injective", "many_to_one"]))]:
            one(ctx, a, common, uc, mk, reqs, pend, force_no_model=True)
    huge_values(ctx)
    if ctx.oracle_only:
        return
    for (desc, real), m in zip(pend, ctx.model.run(reqs)):
        if "ok" not in m:
            ctx.corr_fail("model %s, impl returned an index" % m, desc)
        elif I.canon(m["ok"]["idx"]) != real:
            ctx.corr_fail("from_array differs: impl %s model %s" % (str(real)[:200], str(I.canon(m["ok"]["idx"]))[:200]), desc)


def replay(ctx, rep):
    core.load_catii()
    from catii import iindex
    c = rep["case"]
    if not isinstance(c.get("array"), list):
        return True
    a = np.array(c["array"], dtype=np.int64)
    kw = {}
    if c.get("common") is not None:
        kw["common"] = c["common"]
    if c.get("mapping"):
        kw["mapping"] = {int(k): v for k, v in c["mapping"].items()}
    try:
        ix = iindex.from_array(a, **kw)
        out = ix.to_array(dtype=np.int64)
    except Exception:
        return False
    exp = a if not c.get("mapping") else np.vectorize(lambda x: kw["mapping"][int(x)], otypes=[np.int64])(a)
    return out.shape == exp.shape and np.array_equal(out, exp)
