"""C15 — library-chosen common is a most frequent value; equality is canonical."""
import numpy as np

import core
import hist
import idx_common as I

ID = "C15"
LEAN_MODULES = ["CatiiProps.C15"]
USES_TRANSLATOR = ['eq', 'choose_common', 'shift_to']   # Gen/EqGen.lean is rewritten from the current iindex.__eq__ / __ne__ (tools/translate_eq.py)
TRUSTED = ["tools/translate_eq.py (the boolean expression of __eq__, __ne__ = not __eq__; numpy.setxor1d modelled up to order)"]
RULE = ("(a) the histories of C06: after every library-chosen normalisation (shift_common(), append, filtered, collapsed, "
        "from_array without a common - with and without a value mapping (injective / many-to-one) and supplied counts) count(common) == max count, ties either way; (b) pairs of indexes reached by "
        "different histories: direct twin (must be ==), re-encoded twin with another common, one-cell difference, near misses with the same key set and row-id total (one cell moved to another listed value, two cells swapped), other "
        "shape (must be !=), a != b is not (a == b) and never raises, reflexive/symmetric/transitive, non-index -> False. "
        "Non-trivial = at least one entry; distinct by the pair")
ASSUMPTIONS = []


def eq_checks(ctx, ix, a, reqs, pend):
    import gen_cube as G
    from catii import iindex
    desc = {"index": I.to_json(ix)}

    def cmp(x, y, want, why):
        try:
            e1, e2 = (x == y), (y == x)
            n1 = (x != y)
        except Exception as e:
            ctx.oracle_fail("comparison raised %s (%s)" % (type(e).__name__, why), desc, cls="C15-compare-raises")
            return
        ctx.evaluations += 1
        if e1 is not want or e2 is not want:
            ctx.oracle_fail("%s: a == b is %s / b == a is %s, expected %s" % (why, e1, e2, want), dict(desc, why=why),
                            cls="C15-eq-wrong")
        if n1 is not (not e1):
            ctx.oracle_fail("%s: (a != b) is %s but (a == b) is %s" % (why, n1, e1), dict(desc, why=why), cls="C15-ne-not-negation")
        if isinstance(y, iindex):
            reqs.append({"op": "iidx", "m": "eq", "a": I.to_json(x), "b": I.to_json(y)})
            pend.append((dict(desc, why=why), e1))

    twin = G.make_index(a, int(ix.common))            # same shape, common, dense content; built directly
    cmp(ix, twin, True, "directly built twin")
    cmp(ix, ix, True, "reflexive")
    t2 = I.from_json(I.to_json(twin))
    cmp(twin, t2, True, "transitive leg")
    cmp(ix, t2, True, "transitive closure")
    other_c = int(ix.common) + 1
    shifted = G.make_index(a, other_c)
    cmp(ix, shifted, False, "same dense content, different common")
    if a.size:
        b = a.copy()
        pos = tuple(ctx.rng.randrange(s) for s in a.shape)
        b[pos] = b[pos] + 1
        cmp(ix, G.make_index(b, int(ix.common)), False, "one cell differs")
    # near misses: same shape, common value, key set (and even entry lengths), different content
    flat = a.reshape(-1)
    listed = [int(v) for v in sorted(set(flat.tolist())) if v != int(ix.common)]
    if len(listed) >= 2:
        v1, v2 = ctx.rng.sample(listed, 2)
        p1 = [i for i, v in enumerate(flat.tolist()) if v == v1]
        p2 = [i for i, v in enumerate(flat.tolist()) if v == v2]
        if len(p1) >= 2:                 # one cell moves from v1 to v2: same keys, same total of row ids
            for pos in sorted(set([p1[0], p1[-1], ctx.rng.choice(p1)])):
                b = flat.copy(); b[pos] = v2
                cmp(ix, G.make_index(b.reshape(a.shape), int(ix.common)), False, "one cell moved to another listed value")
        b = flat.copy()                  # two cells swap their values: every entry keeps its length
        i1, i2 = ctx.rng.choice(p1), ctx.rng.choice(p2)
        b[i1], b[i2] = v2, v1
        if a.ndim == 1 or i1 % a.shape[1] == i2 % a.shape[1]:
            cmp(ix, G.make_index(b.reshape(a.shape), int(ix.common)), False, "two cells swapped")
        ctx.hit("near_miss_twins")
    if a.ndim == 1:
        cmp(ix, G.make_index(np.concatenate([a, [int(ix.common)]]), int(ix.common)), False, "one more (common) row")
    for other in (5, None, "x", {(1,): [0]}, [1, 2]):
        cmp(ix, other, False, "non-index %r" % (other,))


def run(ctx):
    core.load_catii()
    from catii import iindex
    hist.drive(ctx, "C15", check_model=False)
    reqs, pend = [], []
    # library-chosen common in from_array (1-D and 2-D, ties, negatives)
    for _ in range(ctx.n(150)):
        nd = ctx.rng.choice([1, 2])
        N = ctx.rng.choice([1, 2, 3, 4, 6, 10])
        shape = (N,) if nd == 1 else (N, ctx.rng.randrange(1, 4))
        vals = ctx.rng.choice([[0, 1], [0, 1], [0, 0, 1], [0, 1, 1, 1], [0, 1, 2], [-1, 0, 3], [5, 7, 9, 11, 13, 2]])
        a = np.array(ctx.rng.choices(vals, k=int(np.prod(shape))), dtype=np.int64).reshape(shape)
        # the library also chooses when a value mapping (injective or many-to-one) and/or the value counts are supplied
        mkind = ctx.rng.choice(["none", "none", "injective", "many_to_one", "many_to_one"])
        present = sorted(set(a.reshape(-1).tolist()))
        if mkind == "none":
            mapping = None
        elif mkind == "injective":
            mapping = dict(zip(present, ctx.rng.sample(range(-3, 30), len(present))))
        else:
            mapping = {v: ctx.rng.choice([10, 20, 30]) for v in present}
        counts = None
        if ctx.rng.random() < 0.3:
            vv, cn = np.unique(a, return_counts=True)
            counts = {int(x): int(y) for x, y in zip(vv.tolist(), cn.tolist())}
        desc = {"from_array": a.tolist(), "mapping": None if mapping is None else {str(k): v for k, v in mapping.items()},
                "counts": counts is not None}
        kw = {}
        if mapping is not None:
            kw["mapping"] = dict(mapping)
        if counts is not None:
            kw["counts"] = dict(counts)
        stored, dt = I.storage_variant(ctx.rng, a) if ctx.rng.random() < 0.5 else (a, "int64")
        desc["dtype"] = dt
        ctx.hit("storage:" + dt)
        try:
            ix = iindex.from_array(stored, **kw)
        except Exception as e:
            ctx.case(desc)
            ctx.oracle_fail("from_array of a %s array raised %s: %s" % (dt, type(e).__name__, str(e)[:80]), desc, cls="C15-from-array-raises")
            continue
        mapped = a if mapping is None else np.vectorize(lambda x: mapping[int(x)], otypes=[np.int64])(a)
        ctx.case(desc)
        ctx.hit("from_array/" + mkind + ("/counts" if counts is not None else ""))
        v, c = np.unique(mapped, return_counts=True)
        cc = int(np.count_nonzero(mapped == ix.common))
        if cc != int(c.max()):
            ctx.oracle_fail("from_array chose common %s (%d cells) but %s occurs %d times" % (
                ix.common, cc, int(v[int(np.argmax(c))]), int(c.max())), desc,
                cls="C15-common-not-most-frequent")
        if mapping is None and counts is None:
            reqs.append({"op": "iidx", "m": "from_array", "arr": {"shape": list(shape), "data": a.reshape(-1).tolist()}})
            pend.append((desc, ("common", int(ix.common))))
    # exhaustively: every boolean array (0/1 indicators stored as bool) of a few small shapes, no options
    import itertools
    for shape in ((4,), (2, 2), (3, 2), (2, 3)):
        for bits in itertools.product((False, True), repeat=int(np.prod(shape))):
            a = np.array(bits, dtype=bool).reshape(shape)
            desc = {"from_array": a.astype(int).tolist(), "dtype": "bool", "mapping": None, "counts": False}
            ctx.evaluations += 1
            ctx.hit("from_array/bool_exhaustive")
            try:
                ix = iindex.from_array(a)
            except Exception as e:
                ctx.oracle_fail("from_array of a bool array raised %s: %s" % (type(e).__name__, str(e)[:80]), desc, cls="C15-from-array-raises")
                continue
            ai = a.astype(np.int64)
            v, c = np.unique(ai, return_counts=True)
            cc = int(np.count_nonzero(ai == ix.common))
            if cc != int(c.max()):
                ctx.oracle_fail("from_array chose common %s (%d cells) but %s occurs %d times" % (
                    ix.common, cc, int(v[int(np.argmax(c))]), int(c.max())), desc, cls="C15-common-not-most-frequent")
            elif not np.array_equal(I.dense_of(ix), ai):
                ctx.oracle_fail("from_array of a bool array does not hold its content", desc, cls="C15-common-not-most-frequent")
    ctx.exhaustive.append("from_array without options on every boolean array of shape (4,), (2,2), (3,2), (2,3)")
    # near ties in large indexes: the most frequent value leads the stored common value by ONE cell among hundreds
    for shape in ((101,), (301,), (150, 2), (1001,)):
        n = int(np.prod(shape))
        k = n // 2
        flat = ([7] * (k + 1) + [3] * k + [5] * n)[:n] if n % 2 else ([7] * k + [3] * (k - 1) + [5])
        flat = np.array(flat, dtype=np.int64)
        assert len(flat) == n
        ctx.rng.shuffle(flat)
        a = flat.reshape(shape)
        for via in ("shift_common", "filtered", "append"):
            ix = iindex.from_array(a, common=3)            # a legal, well-formed index whose common value is NOT the most frequent
            desc = {"near_tie": list(shape), "via": via}
            ctx.case(desc, nontrivial=True)
            ctx.hit("near_tie:" + via)
            try:
                if via == "shift_common":
                    ix.shift_common()
                    res, arr = ix, a
                elif via == "filtered":
                    mask = np.ones(shape[0], dtype=bool)
                    mask[0] = False
                    res, arr = ix.filtered(mask, int(mask.sum())), a[mask]
                else:
                    res = ix
                    res.append(iindex.from_array(a[:1], common=3))
                    arr = np.concatenate([a, a[:1]])
            except Exception as e:
                ctx.oracle_fail("%s on a %s index raised %s: %s" % (via, shape, type(e).__name__, str(e)[:80]), desc, cls="C15-raises")
                continue
            v, c = np.unique(arr, return_counts=True)
            cc = int(np.count_nonzero(arr == res.common))
            if cc != int(c.max()):
                ctx.oracle_fail("after %s the common value %s occurs %d times but %s occurs %d times (index of %d cells)" % (
                    via, res.common, cc, int(v[int(np.argmax(c))]), int(c.max()), arr.size), desc, cls="C15-common-not-most-frequent")
    # a lead of ONE cell at EVERY size: n cells, the stored common value 3 in c of them, 7 (a greater key) in c - 1, the rest
    # spread over values that occur less often - for every n and every c that fits.  shift_common() must leave 3.
    top = 64 if ctx.scale == 1 else 220
    nlead = 0
    for n in range(3, top + 1):
        for c in range(2, (n + 1) // 2 + 1):
            rest = n - (2 * c - 1)
            flat = [3] * c + [7] * (c - 1)
            v = 10
            while rest > 0:
                take = min(rest, max(1, c - 2))
                flat += [v] * take
                rest -= take
                v += 1
            if c - 2 < 1 and n - (2 * c - 1) > 0:
                continue           # the rest could not stay below the runner-up
            arr = np.array(flat, dtype=np.int64)
            arr = arr[np.random.default_rng(n * 1000 + c).permutation(n)]
            shapes = [(n,)] + ([(n // 2, 2)] if n % 2 == 0 else [])
            for shape in shapes:
                a = arr.reshape(shape)
                nlead += 1
                ctx.evaluations += 1
                try:
                    ix = iindex.from_array(a, common=3)
                    ix.shift_common()
                except Exception as e:
                    ctx.oracle_fail("shift_common() raised %s" % type(e).__name__, {"lead_of_one": [n, c], "shape": list(shape)}, cls="C15-raises")
                    continue
                if int(ix.common) != 3:
                    ctx.oracle_fail("shift_common() on an index of %d cells whose common value 3 occurs %d times chose %s, which occurs "
                                    "%d times" % (n, c, ix.common, int(np.count_nonzero(a == ix.common))),
                                    {"lead_of_one": [n, c], "shape": list(shape)}, cls="C15-common-not-most-frequent")
    ctx.hit("lead_of_one_cell", nlead)
    ctx.exhaustive.append("shift_common() with the stored common value leading a greater key by one cell: every size 3..%d, every count" % top)
    # two-axis indexes in which one column holds NO cell of the stored common value (and another one does): after the library
    # re-encodes them (shift_common(), append, filtered) the result must EQUAL the index built directly from the same array
    import gen_cube as G
    for rep in range(ctx.n(18)):
        N, cols = ctx.rng.choice([3, 5, 8]), ctx.rng.choice([2, 3])
        a = np.array(ctx.rng.choices([1, 1, 1, 2, 0], k=N * cols), dtype=np.int64).reshape(N, cols)
        j = ctx.rng.randrange(cols)
        a[:, j] = np.where(a[:, j] == 0, 2, a[:, j])
        a[ctx.rng.randrange(N), (j + 1) % cols] = 0
        a[:, j][0] = 1
        for via in ("shift_common", "append", "filtered"):
            desc = {"column_without_old_common": a.tolist(), "column": j, "via": via}
            ctx.case(desc, nontrivial=True)
            ctx.hit("column_without_old_common:" + via)
            try:
                ix = iindex.from_array(a, common=0)
                if via == "shift_common":
                    ix.shift_common()
                    res, arr = ix, a
                elif via == "append":
                    ix.append(iindex.from_array(a[:1], common=0))
                    res, arr = ix, np.concatenate([a, a[:1]])
                else:
                    mask = np.ones(N, dtype=bool)
                    mask[N - 1] = False
                    res, arr = ix.filtered(mask, N - 1), a[mask]
                twin = G.make_index(arr, int(res.common))
                e1, e2, n1 = (res == twin), (twin == res), (res != twin)
            except Exception as e:
                ctx.oracle_fail("%s raised %s: %s" % (via, type(e).__name__, str(e)[:80]), desc, cls="C15-raises")
                continue
            if not np.array_equal(I.dense_of(res), arr):
                continue            # C06's business
            if e1 is not True or e2 is not True or n1 is not False:
                ctx.oracle_fail("after %s the index (common %s, keys %s) and the index built directly from the same array (keys %s) agree "
                                "on shape, common value and dense content but a == b is %s, b == a is %s, a != b is %s" % (
                                    via, res.common, sorted(dict.keys(res)), sorted(dict.keys(twin)), e1, e2, n1), desc, cls="C15-eq-wrong")
    # equality across histories
    for _ in range(ctx.n(120)):
        steps = hist.run_history(ctx.rng, ctx.rng.randrange(0, 6), ndim=ctx.rng.choice([1, 2]),
                                 allow={"append", "update", "filtered", "reindexed", "shift_common", "shift_common_v", "copy"})
        if steps and steps[-1].post is not None:
            ix = I.from_json(steps[-1].post)
        else:
            ix, _ = I.gen_index(ctx.rng, ndim=ctx.rng.choice([1, 2]))
        if I.wf_problems(ix):
            continue
        ctx.case({"eq_family_of": I.to_json(ix)}, nontrivial=len(ix) > 0)
        ctx.hit("eq_family")
        eq_checks(ctx, ix, I.dense_of(ix), reqs, pend)
    if ctx.oracle_only:
        return
    for (desc, real), m in zip(pend, ctx.model.run(reqs)):
        if isinstance(real, tuple):
            if "ok" not in m or m["ok"]["idx"]["common"] != real[1]:
                ctx.corr_fail("from_array common: impl %s model %s" % (real[1], str(m)[:100]), desc)
        elif m.get("ok") is not real:
            ctx.corr_fail("== : impl %s model %s" % (real, m), desc)


def replay(ctx, rep):
    core.load_catii()
    c = rep["case"]
    if "column_without_old_common" in c:
        from catii import iindex
        import gen_cube as G
        a = np.array(c["column_without_old_common"], dtype=np.int64)
        ix = iindex.from_array(a, common=0)
        if c["via"] == "shift_common":
            ix.shift_common()
            res, arr = ix, a
        elif c["via"] == "append":
            ix.append(iindex.from_array(a[:1], common=0))
            res, arr = ix, np.concatenate([a, a[:1]])
        else:
            mask = np.ones(len(a), dtype=bool)
            mask[len(a) - 1] = False
            res, arr = ix.filtered(mask, len(a) - 1), a[mask]
        twin = G.make_index(arr, int(res.common))
        return (res == twin) is True and (twin == res) is True and (res != twin) is False
    if "lead_of_one" in c:
        from catii import iindex
        n, cnt = c["lead_of_one"]
        flat = [3] * cnt + [7] * (cnt - 1)
        rest, v = n - (2 * cnt - 1), 10
        while rest > 0:
            take = min(rest, max(1, cnt - 2))
            flat += [v] * take
            rest -= take
            v += 1
        arr = np.array(flat, dtype=np.int64)[np.random.default_rng(n * 1000 + cnt).permutation(n)].reshape(c["shape"])
        ix = iindex.from_array(arr, common=3)
        ix.shift_common()
        return int(ix.common) == 3
    if "index" in c:
        ix = I.from_json(c["index"])
        c2 = core.Ctx(ID, "quick", 0)
        eq_checks(c2, ix, I.dense_of(ix), [], [])
        return not c2.oracle_failures
    return True
