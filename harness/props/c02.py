"""C02 — the count cube equals the brute-force contingency table."""
import itertools

import numpy as np

import core
import gen_cube as G

ID = "C02"
LEAN_MODULES = ["CatiiProps.C02"]
USES_TRANSLATOR = ['marginal_diff']   # Gen/DiffGen.lean: one pass of _compute_common_cells_from_marginal_diffs as data (tools/translate_diff.py)
RULE = ("a 5- / 7-column dimension declaring 2^28 rows (the cube engages its own thread pool), block by block against set arithmetic; " "exhaustive: every list of 0..3 one-axis dims over N<=3 rows, values<2, every common; random: 0..4 dims, N<=40, "
        "extents 1..5, one/two/three-axis dims, commons frequent/rare/absent, explicit shapes padded beyond the data, "
        "extents at 255/256/257 and 65535/65536/65537 (<=2 dims). Observed on the real code: interactions, regions after "
        "fill, after marginal differencing, count() in NaN and (0, False) formats; multi-axis cubes are counted again after one of their dimensions was updated in place. Non-trivial = at least one row and one "
        "dim; distinct by (dense arrays, commons, shape)")
ASSUMPTIONS = ["counts below 2^53 (regions are float64 when missing cells are reported as NaN)"]
MODEL_CELL_LIMIT = 400


def slices_1d(dense):
    """[(extra coords, 1-D column)] in axis order for one dense dim"""
    if dense.ndim == 1:
        return [((), dense)]
    out = []
    for hi in itertools.product(*[range(e) for e in dense.shape[1:]]):
        out.append((hi, dense[(slice(None),) + hi]))
    return out


def oracle_table(dense_list, shape, N):
    """full expected output (scaffold axes outermost, in dim order then axis order)"""
    scaff = tuple(e for d in dense_list for e in d.shape[1:])
    out = np.zeros(scaff + tuple(shape), dtype=np.int64)
    per_dim = [slices_1d(d) for d in dense_list]
    for combo in itertools.product(*per_dim):
        js = tuple(e for hi, _ in combo for e in hi)
        out[js] = G.brute_table([col for _, col in combo], shape, N)
    return out


def check(ctx, case, reqs, pend, shape=None):
    from catii import ccube, ffuncs
    dense, commons, N = case["dense"], case["commons"], case["N"]
    idxs = [G.make_index(d, c) for d, c in zip(dense, commons)]
    desc = {"dense": [d.tolist() for d in dense], "commons": commons, "N": N, "shape": shape}
    small = desc if len(str(desc)) < 600 else {"k": len(dense), "N": N, "commons": commons, "shape": shape,
                                               "dim_shapes": [list(d.shape) for d in dense]}
    ctx.case(small, nontrivial=bool(dense) and N > 0)
    ctx.hit("k=%d" % len(dense))
    multi = any(d.ndim > 1 for d in dense)
    ctx.hit("multi_axis" if multi else "one_axis")
    for m in case["modes"]:
        ctx.hit("common:" + m)
    try:
        cube = ccube(idxs, interacting_shape=None if shape is None else tuple(shape))
        kw = {"N": N} if not dense else {}
        res = cube.count(**kw)
        vals, valid = cube.count(return_missing_as=(0, False), **kw)
    except Exception as e:
        ctx.oracle_fail("count raised %s: %s" % (type(e).__name__, e), small, cls="C02-raises")
        return
    ishape = tuple(int(x) for x in cube.interacting_shape)
    exp = oracle_table(dense, ishape, N)
    # shape law
    if shape is None:
        inf = tuple(int(max([int(d.max())] if d.size else [] + [c]) if False else max(
            [int(v) for v in np.unique(d).tolist() if v != c] + [c])) + 1 for d, c in zip(dense, commons))
        if ishape != inf:
            ctx.oracle_fail("inferred shape %s, expected %s" % (ishape, inf), small, cls="C02-shape")
    res = np.asarray(res)
    if res.shape != exp.shape:
        ctx.oracle_fail("count shape %s, expected %s" % (res.shape, exp.shape), small, cls="C02-shape")
        return
    got = np.where(np.isnan(res), 0, res)
    if not np.array_equal(got, exp) or not np.array_equal(np.isnan(res), exp == 0):
        bad = np.argwhere((got != exp) | (np.isnan(res) != (exp == 0)))
        c0 = tuple(int(x) for x in bad[0])
        ctx.oracle_fail("cell %s: count %s (missing=%s), brute force says %d" % (
            c0, res[c0], bool(np.isnan(res[c0])), exp[c0]), small, cls="C02-wrong-count")
    if not np.array_equal(np.asarray(vals), exp) or not np.array_equal(np.asarray(valid), exp != 0):
        ctx.oracle_fail("(0, False) format disagrees with brute force", small, cls="C02-wrong-count")
    if multi and N > 0 and ctx.rng.random() < 0.6:
        # the SAME cube object after one of its multi-axis dimensions was changed in place (update(), as a caller who
        # keeps cubes around would): it is still the count cube of its dimensions
        a = ctx.rng.choice([j for j, d in enumerate(dense) if d.ndim > 1])
        d2 = dense[a].copy()
        present = sorted(set(int(v) for v in d2.reshape(-1).tolist()) | {int(commons[a])})
        for _ in range(ctx.rng.randrange(1, 4)):
            pos = tuple(ctx.rng.randrange(s_) for s_ in d2.shape)
            d2[pos] = ctx.rng.choice(present)
        ent = {}
        for pos in itertools.product(*[range(s_) for s_ in d2.shape]):
            if d2[pos] != dense[a][pos]:
                ent.setdefault((int(d2[pos]),) + tuple(int(x) for x in pos[1:]), []).append(pos[0])
        small2 = dict(small, live_cube_updated_dim=a, update={str(k): v for k, v in ent.items()})
        ctx.case(small2, nontrivial=True)
        ctx.hit("live_cube_updated")
        try:
            idxs[a].update({k: np.array(sorted(v), dtype=np.uint32) for k, v in ent.items()})
            res2 = np.asarray(cube.count())
        except Exception as e:
            ctx.oracle_fail("count on a cube whose dimension was updated in place raised %s: %s" % (type(e).__name__, e), small2,
                            cls="C02-raises")
            return
        exp2 = oracle_table([d2 if j == a else d for j, d in enumerate(dense)], ishape, N)
        got2 = np.where(np.isnan(res2), 0, res2)
        if res2.shape != exp2.shape or not np.array_equal(got2, exp2) or not np.array_equal(np.isnan(res2), exp2 == 0):
            bad = np.argwhere((got2 != exp2) | (np.isnan(res2) != (exp2 == 0))) if res2.shape == exp2.shape else [[0]]
            c0 = tuple(int(x) for x in bad[0])
            ctx.oracle_fail("cube built before dimension %d was updated in place: cell %s: count %s, brute force says %s" % (
                a, c0, res2[c0] if res2.shape == exp2.shape else "?", exp2[c0] if res2.shape == exp2.shape else "?"), small2,
                cls="C02-wrong-count")
    if multi or not dense:
        if not dense and not ctx.oracle_only:
            reqs.append({"op": "count", "dims": [], "N": N, "shape": None if shape is None else list(shape)})
            pend.append((small, None, None, None, [int(res)] if not np.isnan(res) else [0], ishape))
        return
    ncell = int(np.prod([s + 1 for s in ishape]))
    if ncell > MODEL_CELL_LIMIT:
        ctx.hit("oracle_only_large")
        return
    # intermediate observation points
    f = ffuncs.ffunc_count()
    regions = f.get_initial_regions(cube)
    cube.walk(f.fill_func(regions))
    filled = [int(x) for x in regions[0].reshape(-1).tolist()]
    r2 = regions[0].copy()
    cube._compute_common_cells_from_marginal_diffs(r2)
    diffed = [int(x) for x in r2.reshape(-1).tolist()]
    reqs.append({"op": "count", "dims": G.dims_to_model(idxs), "N": N, "shape": None if shape is None else list(shape)})
    pend.append((small, filled, diffed, [list(map(int, c)) for c in np.argwhere(exp == 0).tolist()],
                 [int(x) for x in got.reshape(-1).tolist()], ishape))


def _expected_by_sets(dims, shape, N):
    """dims: [(entries {(v,): rows}, common, extent)] one-axis; expected contingency table by set arithmetic"""
    import itertools

    def rows_of(d, v):
        return set(int(x) for x in d[0].get((v,), np.array([], dtype=np.uint32)).tolist())
    exp = np.zeros(shape, dtype=object)
    for cell in itertools.product(*[range(e) for e in shape]):
        listed_axes = [a for a, v in enumerate(cell) if v != dims[a][1]]
        common_axes = [a for a, v in enumerate(cell) if v == dims[a][1]]
        listed_any = {a: set().union(*[rows_of(dims[a], v) for v in range(shape[a]) if v != dims[a][1]]) if shape[a] > 1 else set()
                      for a in common_axes}
        if listed_axes:
            base = set.intersection(*[rows_of(dims[a], cell[a]) for a in listed_axes])
            for a in common_axes:
                base = base - listed_any[a]
            exp[cell] = len(base)
        else:
            exp[cell] = N - len(set().union(*listed_any.values())) if listed_any else N
    return exp


def big_scaffold(ctx):
    """one dimension with 5 / 6 / 7 / 9 columns declaring 2^28 rows (a handful listed), alone or crossed with a sparse
    one-axis dimension: the index cube switches to its thread pool by itself at this size (scaffold > 2 and rows x
    scaffold >= 2^30) and deals the sub-cubes to 4 workers; every block must still be the brute-force table of its column"""
    from catii import ccube, iindex
    import pool_common as P
    for cols in ((5, 7) if ctx.scale == 1 else (5, 6, 7, 9, 10, 13)):
        N = 2 ** 28
        extent = ctx.rng.randrange(2, 4)
        common = ctx.rng.randrange(extent)
        ent, per_col = {}, []
        for c in range(cols):
            used, col_ent = set(), {}
            for v in range(extent):
                if v == common:
                    continue
                rows = sorted(set(ctx.rng.choice([0, 1, 2, 3, 5, 8, N - 1, N - 2, N // 2]) for _r in range(ctx.rng.randrange(1, 4))) - used)
                if rows:
                    used |= set(rows)
                    ent[(v, c)] = np.array(rows, dtype=np.uint32)
                    col_ent[(v,)] = ent[(v, c)]
            per_col.append((col_ent, common, extent))
        second = None
        if ctx.rng.random() < 0.5:
            e2 = ctx.rng.randrange(2, 4)
            c2 = ctx.rng.randrange(e2)
            ent2 = {(v,): np.array(sorted(set(ctx.rng.choice([0, 1, 2, 5, N - 1, N // 2]) for _r in range(2))), dtype=np.uint32)
                    for v in range(e2) if v != c2}
            seen = set()
            for k_ in list(ent2):
                keep = [r for r in ent2[k_].tolist() if r not in seen]
                seen |= set(keep)
                if keep:
                    ent2[k_] = np.array(keep, dtype=np.uint32)
                else:
                    del ent2[k_]
            second = (ent2, c2, e2)
        idxs = [iindex(ent, common, (N, cols))] + ([iindex(second[0], second[1], (N,))] if second else [])
        shape = [extent] + ([second[2]] if second else [])
        desc = {"big_scaffold": cols, "declared_rows": N, "common": common,
                "entries": {str(k_): v.tolist() for k_, v in ent.items()},
                "second": None if second is None else {"common": second[1], "entries": {str(k_[0]): v.tolist() for k_, v in second[0].items()}}}
        ctx.case(desc, nontrivial=True)
        try:
            cube = ccube(idxs, interacting_shape=tuple(shape))
            ctx.hit("big_scaffold:pooled" if cube.parallel else "big_scaffold:serial")
            got = P.run_with_timeout(lambda: cube.count(return_missing_as=(0, False)), 300)
            if got[0] != "ok":
                raise (got[1] if got[0] == "raise" else TimeoutError("count did not return"))
            vals, valid = got[1]
        except Exception as e:
            ctx.oracle_fail("count over a %d-column dimension declaring 2^28 rows raised %s: %s" % (cols, type(e).__name__, str(e)[:80]),
                            desc, cls="C02-raises")
            continue
        for c in range(cols):
            exp = _expected_by_sets([per_col[c]] + ([second] if second else []), shape, N)
            ctx.evaluations += 1
            bad = [cell for cell in np.ndindex(*shape)
                   if (int(exp[cell]) == 0) != (not bool(valid[(c,) + cell])) or (int(exp[cell]) != 0 and int(vals[(c,) + cell]) != int(exp[cell]))]
            if bad:
                cell = bad[0]
                ctx.oracle_fail("count over a %d-column dimension declaring 2^28 rows (pool engaged: %s): column %d cell %s holds %s "
                                "(valid=%s), brute force says %s" % (cols, cube.parallel, c, cell, vals[(c,) + cell],
                                                                     bool(valid[(c,) + cell]), exp[cell]), desc, cls="C02-wrong-count")
                break


def big_rows(ctx, reqs, pend):
    """row counts beyond the exact range of float32 / int32 / uint32 words: sparse dimensions built directly from a few
    entries (no dense array), expected table by set arithmetic"""
    import itertools
    from catii import ccube, iindex
    for N in ([2**24 + 1, 2**24 + 7, 2**31 + 5, 2**32 - 1] if ctx.scale == 1 else
              [2**24 + 1, 2**24 + 7, 2**24 + 2**12 + 3, 2**31 - 1, 2**31 + 5, 2**32 - 3, 2**32 - 1]):
        for k in (1, 2):
            dims, idxs = [], []
            for _ in range(k):
                extent = ctx.rng.randrange(2, 4)
                common = ctx.rng.randrange(extent)
                ent = {}
                used = set()
                for v in range(extent):
                    if v == common or ctx.rng.random() < 0.3:
                        continue
                    rows = sorted(set(ctx.rng.choice([0, 1, 2, 5, N - 1, N - 2, N // 2, 2**24, 2**24 - 1]) for _r in range(ctx.rng.randrange(1, 4))) - used)
                    rows = [r for r in rows if r < N]
                    if rows:
                        used |= set(rows)
                        ent[(v,)] = np.array(rows, dtype=np.uint32)
                dims.append((ent, common, extent))
                idxs.append(iindex(ent, common, (N,)))
            shape = [e for _, _, e in dims]
            desc = {"big_N": N, "dims": [{"entries": {str(k_[0]): v.tolist() for k_, v in e.items()}, "common": c} for e, c, _ in dims]}
            ctx.case(desc)
            ctx.hit("big_rows")
            # expected counts: listed categories by set intersection, the common ones by complement
            def rows_of(d, v):
                ent, common, _ = d
                return set(int(x) for x in ent.get((v,), np.array([], dtype=np.uint32)).tolist())
            exp = np.zeros(shape, dtype=object)
            for cell in itertools.product(*[range(e) for e in shape]):
                listed_axes = [a for a, v in enumerate(cell) if v != dims[a][1]]
                common_axes = [a for a, v in enumerate(cell) if v == dims[a][1]]
                if listed_axes:
                    base = set.intersection(*[rows_of(dims[a], cell[a]) for a in listed_axes])
                    for a in common_axes:
                        listed_any = set().union(*[rows_of(dims[a], v) for v in range(shape[a]) if v != dims[a][1]]) if shape[a] > 1 else set()
                        base = base - listed_any
                    exp[cell] = len(base)
                else:
                    any_listed = set()
                    for a in common_axes:
                        for v in range(shape[a]):
                            if v != dims[a][1]:
                                any_listed |= rows_of(dims[a], v)
                    exp[cell] = N - len(any_listed)
            try:
                cube = ccube(idxs, interacting_shape=tuple(shape))
                res = np.asarray(cube.count())
                vals, valid = cube.count(return_missing_as=(0, False))
            except Exception as e:
                ctx.oracle_fail("count raised %s: %s" % (type(e).__name__, str(e)[:80]), desc, cls="C02-raises")
                continue
            for cell in itertools.product(*[range(e) for e in shape]):
                want = int(exp[cell])
                got = res[cell]
                g = 0 if np.isnan(got) else int(got)
                if g != want or float(got) != float(want) and want != 0 or int(vals[cell]) != want or bool(valid[cell]) != (want != 0):
                    ctx.oracle_fail("cell %s of a cube over %d rows: count %r / %r, exact count %d" % (
                        cell, N, got, vals[cell], want), desc, cls="C02-wrong-count")
                    break


def run(ctx):
    core.load_catii()
    reqs, pend = [], []
    for case in G.exhaustive_small(3, 3, 2):
        check(ctx, case, reqs, pend)
    ctx.exhaustive.append("all lists of 0..3 one-axis dims, N<=3, values<2, every common (inferred shape)")
    ctx.notes.append("big_rows: sparse 1-2 dim cubes over 2^24+1 .. 2^32-1 rows (counts beyond float32 / int32 exactness), expected by set arithmetic")
    for _ in range(ctx.n(250)):
        case = G.gen_dims(ctx.rng, multi_axis=ctx.rng.random() < 0.4)
        shape = None
        if case["dense"] and ctx.rng.random() < 0.35:   # explicit shape, possibly padded beyond the data
            shape = [e + ctx.rng.choice([0, 0, 1, 3]) for e in case["extents"]]
            ctx.hit("explicit_shape")
        check(ctx, case, reqs, pend, shape)
    # extents at the integer-width boundaries (memory-bounded: <= 2 dims, the other extent <= 3)
    for big in (255, 256, 257, 65535, 65536, 65537):
        for k in (1, 2):
            N = 30
            d0 = np.array([ctx.rng.choice([0, 1, big - 1, big - 2 if big > 2 else 0]) for _ in range(N)], dtype=np.int64)
            dense = [d0] + ([G.gen_dense(ctx.rng, N, 3)] if k == 2 else [])
            commons = [int(ctx.rng.choice([0, big - 1])), 0][:k]
            case = dict(dense=dense, commons=commons, extents=[big, 3][:k], modes=["boundary"] * k, N=N)
            ctx.hit("extent_boundary")
            check(ctx, case, reqs, pend, [big, 3][:k])
    # dimensions that LIST 255 / 256 / 257 categories (every category occurs): any per-entry code or counter of one byte
    # is crossed; the wide dimension first and second, a small one beside it whose uncommon rows meet the last-listed category
    for E in ((256, 257, 258) if ctx.scale == 1 else (255, 256, 257, 258, 300)):
        for wide_first in (False, True):
            N = E + 40
            wide = np.array([i % E for i in range(N)], dtype=np.int64)
            small = np.array([(i * 7 + i // E) % 3 for i in range(N)], dtype=np.int64)
            small[E - 1] = 1
            small[E - 2] = 2
            dense = [wide, small] if wide_first else [small, wide]
            exts = [E, 3] if wide_first else [3, E]
            case = dict(dense=dense, commons=[0, 0], extents=exts, modes=["many_entries"] * 2, N=N)
            ctx.hit("many_listed_categories")
            check(ctx, case, reqs, pend, exts)
    big_rows(ctx, reqs, pend)
    big_scaffold(ctx)
    if ctx.oracle_only:
        return
    for (desc, filled, diffed, missing, counts, ishape), m in zip(pend, ctx.model.run(reqs)):
        if "err" in m:
            ctx.corr_fail("model error %s where impl returned" % m, desc)
            continue
        if tuple(m["shape"]) != tuple(ishape):
            ctx.corr_fail("shape: impl %s model %s" % (ishape, m["shape"]), desc)
        elif filled is not None and m["filled"] != filled:
            ctx.corr_fail("region after fill differs: impl %s model %s" % (filled[:40], m["filled"][:40]), desc)
        elif diffed is not None and m["diffed"] != diffed:
            ctx.corr_fail("region after marginal differencing differs: impl %s model %s" % (diffed[:40], m["diffed"][:40]), desc)
        elif m["counts"] != counts:
            ctx.corr_fail("counts differ: impl %s model %s" % (counts[:40], m["counts"][:40]), desc)
        elif missing is not None and sorted(m["missing"]) != sorted(missing):
            ctx.corr_fail("missing cells differ", desc)


def replay(ctx, rep):
    core.load_catii()
    c = rep["case"]
    if "dense" not in c:
        return True
    case = dict(dense=[np.array(d, dtype=np.int64) for d in c["dense"]], commons=c["commons"], N=c["N"],
                modes=["replay"] * len(c["commons"]), extents=[])
    c2 = core.Ctx(ID, "quick", 0, oracle_only=True)
    check(c2, case, [], [], c.get("shape"))
    return not c2.oracle_failures
