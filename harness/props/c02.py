"""C02 — the count cube equals the brute-force contingency table."""
import itertools

import numpy as np

import core
import gen_cube as G

ID = "C02"
LEAN_MODULES = ["CatiiProps.C02"]
RULE = ("exhaustive: every list of 0..3 one-axis dims over N<=3 rows, values<2, every common; random: 0..4 dims, N<=40, "
        "extents 1..5, one/two/three-axis dims, commons frequent/rare/absent, explicit shapes padded beyond the data, "
        "extents at 255/256/257 and 65535/65536/65537 (<=2 dims). Observed on the real code: interactions, regions after "
        "fill, after marginal differencing, count() in NaN and (0, False) formats. Non-trivial = at least one row and one "
        "dim; distinct by (dense arrays, commons, shape)")
ASSUMPTIONS = ["counts below 2^53 (regions are float64 when missing cells are reported as NaN)"]
MODEL_CELL_LIMIT = 400


def slices_1d(dense):
    """[(extra coords, 1-D column)] in axis order for one dense dim"""
    if dense.ndim == 1:
        return [((), dense)]
    out = []
    for hi in itertools.product(*[range(e) for e in dense.shape[1:]]):
        out.append((hi, dense[(slice(None),) + hi]))
    return out


def oracle_table(dense_list, shape, N):
    """full expected output (scaffold axes outermost, in dim order then axis order)"""
    scaff = tuple(e for d in dense_list for e in d.shape[1:])
    out = np.zeros(scaff + tuple(shape), dtype=np.int64)
    per_dim = [slices_1d(d) for d in dense_list]
    for combo in itertools.product(*per_dim):
        js = tuple(e for hi, _ in combo for e in hi)
        out[js] = G.brute_table([col for _, col in combo], shape, N)
    return out


def check(ctx, case, reqs, pend, shape=None):
    from catii import ccube, ffuncs
    dense, commons, N = case["dense"], case["commons"], case["N"]
    idxs = [G.make_index(d, c) for d, c in zip(dense, commons)]
    desc = {"dense": [d.tolist() for d in dense], "commons": commons, "N": N, "shape": shape}
    small = desc if len(str(desc)) < 600 else {"k": len(dense), "N": N, "commons": commons, "shape": shape,
                                               "dim_shapes": [list(d.shape) for d in dense]}
    ctx.case(small, nontrivial=bool(dense) and N > 0)
    ctx.hit("k=%d" % len(dense))
    multi = any(d.ndim > 1 for d in dense)
    ctx.hit("multi_axis" if multi else "one_axis")
    for m in case["modes"]:
        ctx.hit("common:" + m)
    try:
        cube = ccube(idxs, interacting_shape=None if shape is None else tuple(shape))
        kw = {"N": N} if not dense else {}
        res = cube.count(**kw)
        vals, valid = cube.count(return_missing_as=(0, False), **kw)
    except Exception as e:
        ctx.oracle_fail("count raised %s: %s" % (type(e).__name__, e), small, cls="C02-raises")
        return
    ishape = tuple(int(x) for x in cube.interacting_shape)
    exp = oracle_table(dense, ishape, N)
    # shape law
    if shape is None:
        inf = tuple(int(max([int(d.max())] if d.size else [] + [c]) if False else max(
            [int(v) for v in np.unique(d).tolist() if v != c] + [c])) + 1 for d, c in zip(dense, commons))
        if ishape != inf:
            ctx.oracle_fail("inferred shape %s, expected %s" % (ishape, inf), small, cls="C02-shape")
    res = np.asarray(res)
    if res.shape != exp.shape:
        ctx.oracle_fail("count shape %s, expected %s" % (res.shape, exp.shape), small, cls="C02-shape")
        return
    got = np.where(np.isnan(res), 0, res)
    if not np.array_equal(got, exp) or not np.array_equal(np.isnan(res), exp == 0):
        bad = np.argwhere((got != exp) | (np.isnan(res) != (exp == 0)))
        c0 = tuple(int(x) for x in bad[0])
        ctx.oracle_fail("cell %s: count %s (missing=%s), brute force says %d" % (
            c0, res[c0], bool(np.isnan(res[c0])), exp[c0]), small, cls="C02-wrong-count")
    if not np.array_equal(np.asarray(vals), exp) or not np.array_equal(np.asarray(valid), exp != 0):
        ctx.oracle_fail("(0, False) format disagrees with brute force", small, cls="C02-wrong-count")
    if multi or not dense:
        if not dense and not ctx.oracle_only:
            reqs.append({"op": "count", "dims": [], "N": N, "shape": None if shape is None else list(shape)})
            pend.append((small, None, None, None, [int(res)] if not np.isnan(res) else [0], ishape))
        return
    ncell = int(np.prod([s + 1 for s in ishape]))
    if ncell > MODEL_CELL_LIMIT:
        ctx.hit("oracle_only_large")
        return
    # intermediate observation points
    f = ffuncs.ffunc_count()
    regions = f.get_initial_regions(cube)
    cube.walk(f.fill_func(regions))
    filled = [int(x) for x in regions[0].reshape(-1).tolist()]
    r2 = regions[0].copy()
    cube._compute_common_cells_from_marginal_diffs(r2)
    diffed = [int(x) for x in r2.reshape(-1).tolist()]
    reqs.append({"op": "count", "dims": G.dims_to_model(idxs), "N": N, "shape": None if shape is None else list(shape)})
    pend.append((small, filled, diffed, [list(map(int, c)) for c in np.argwhere(exp == 0).tolist()],
                 [int(x) for x in got.reshape(-1).tolist()], ishape))


def run(ctx):
    core.load_catii()
    reqs, pend = [], []
    for case in G.exhaustive_small(3, 3, 2):
        check(ctx, case, reqs, pend)
    ctx.exhaustive.append("all lists of 0..3 one-axis dims, N<=3, values<2, every common (inferred shape)")
    for _ in range(ctx.n(250)):
        case = G.gen_dims(ctx.rng, multi_axis=ctx.rng.random() < 0.4)
        shape = None
        if case["dense"] and ctx.rng.random() < 0.35:   # explicit shape, possibly padded beyond the data
            shape = [e + ctx.rng.choice([0, 0, 1, 3]) for e in case["extents"]]
            ctx.hit("explicit_shape")
        check(ctx, case, reqs, pend, shape)
    # extents at the integer-width boundaries (memory-bounded: <= 2 dims, the other extent <= 3)
    for big in (255, 256, 257, 65535, 65536, 65537):
        for k in (1, 2):
            N = 30
            d0 = np.array([ctx.rng.choice([0, 1, big - 1, big - 2 if big > 2 else 0]) for _ in range(N)], dtype=np.int64)
            dense = [d0] + ([G.gen_dense(ctx.rng, N, 3)] if k == 2 else [])
            commons = [int(ctx.rng.choice([0, big - 1])), 0][:k]
            case = dict(dense=dense, commons=commons, extents=[big, 3][:k], modes=["boundary"] * k, N=N)
            ctx.hit("extent_boundary")
            check(ctx, case, reqs, pend, [big, 3][:k])
    if ctx.oracle_only:
        return
    for (desc, filled, diffed, missing, counts, ishape), m in zip(pend, ctx.model.run(reqs)):
        if "err" in m:
            ctx.corr_fail("model error %s where impl returned" % m, desc)
            continue
        if tuple(m["shape"]) != tuple(ishape):
            ctx.corr_fail("shape: impl %s model %s" % (ishape, m["shape"]), desc)
        elif filled is not None and m["filled"] != filled:
            ctx.corr_fail("region after fill differs: impl %s model %s" % (filled[:40], m["filled"][:40]), desc)
        elif diffed is not None and m["diffed"] != diffed:
            ctx.corr_fail("region after marginal differencing differs: impl %s model %s" % (diffed[:40], m["diffed"][:40]), desc)
        elif m["counts"] != counts:
            ctx.corr_fail("counts differ: impl %s model %s" % (counts[:40], m["counts"][:40]), desc)
        elif missing is not None and sorted(m["missing"]) != sorted(missing):
            ctx.corr_fail("missing cells differ", desc)


def replay(ctx, rep):
    core.load_catii()
    c = rep["case"]
    if "dense" not in c:
        return True
    case = dict(dense=[np.array(d, dtype=np.int64) for d in c["dense"]], commons=c["commons"], N=c["N"],
                modes=["replay"] * len(c["commons"]), extents=[])
    c2 = core.Ctx(ID, "quick", 0, oracle_only=True)
    check(c2, case, [], [], c.get("shape"))
    return not c2.oracle_failures
