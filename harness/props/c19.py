"""C19 — fit_dtype: translator-regenerated definition + theorems; grid correspondence; oracle on real code."""
import ast
import os

import core

ID = "C19"
LEAN_MODULES = ["CatiiProps.C19"]
USES_TRANSLATOR = ['fit_dtype']
RULE = ("grid = {±2^k, ±2^k±1 : k in 0..64} ∪ every integer constant in fit_dtype's source (±1), both arguments "
        "crossed; a point is non-trivial when it lies in the property's domain (-2^63 <= min <= 0, min <= max < 2^64, "
        "negative min => max < 2^63); distinct = distinct (max, min) pairs; plus the three call sites named by the property: "
        "INDX coordinate word size for boundary coordinates in any key/axis or in the common value (must be the narrowest "
        "sufficient width), default dtype of to_array for boundary and negative values - also asked again after the index was changed in place (set / delete item, union / difference update, update, shift_common(v), append) so that another width or signedness is needed -, collapsed with boundary precedence values and over 127..300 columns (its per-row column counter)")
TRUSTED = ["translator output Gen/FitDtype.lean is cross-checked against the real fit_dtype on the whole grid"]
ASSUMPTIONS = ["numpy.dtype(<inttype>) denotes the usual two's-complement range of that width"]

RANGES = {"int8": (-2**7, 2**7 - 1), "int16": (-2**15, 2**15 - 1), "int32": (-2**31, 2**31 - 1),
          "int64": (-2**63, 2**63 - 1), "uint8": (0, 2**8 - 1), "uint16": (0, 2**16 - 1),
          "uint32": (0, 2**32 - 1), "uint64": (0, 2**64 - 1)}
BITS = {k: int(k.lstrip("uint")) for k in RANGES}


def source_constants():
    src = open(os.path.join(core.REPO, "src", "catii", "iindexes.py"), encoding="utf-8").read()
    out = set()
    try:
        fn = next(n for n in ast.parse(src).body if isinstance(n, ast.FunctionDef) and n.name == "fit_dtype")
    except (StopIteration, SyntaxError):
        return out
    for n in ast.walk(fn):
        if isinstance(n, (ast.BinOp, ast.UnaryOp, ast.Constant)):
            try:
                v = eval(compile(ast.Expression(n), "<c>", "eval"), {})
                if isinstance(v, int) and not isinstance(v, bool):
                    out.add(v)
            except Exception:
                pass
    return out


def in_dom(mx, mn):
    return mn <= 0 and mn <= mx and -2**63 <= mn and (mn >= 0 or mx <= 2**63 - 1) and mx <= 2**64 - 1


def oracle(name, mx, mn):
    """the property itself, on the real answer; returns None or a description"""
    lo, hi = RANGES[name]
    if not (lo <= mn and mx <= hi):
        return "fit_dtype(%d, %d) = %s does not contain [min, max]" % (mx, mn, name)
    signed = not name.startswith("u")
    if signed != (mn < 0):
        return "fit_dtype(%d, %d) = %s has the wrong signedness" % (mx, mn, name)
    for other, (olo, ohi) in RANGES.items():
        if (not other.startswith("u")) == signed and BITS[other] < BITS[name] and olo <= mn and mx <= ohi:
            return "fit_dtype(%d, %d) = %s but narrower %s suffices" % (mx, mn, name, other)
    return None


def points(ctx):
    base = set()
    for k in range(0, 65):
        for d in (-1, 0, 1):
            base.add(2**k + d)
            base.add(-(2**k) + d)
    for c in source_constants():
        base.update((c - 1, c, c + 1, -c - 1, -c, -c + 1))
    base.add(0)
    xs = sorted(base)
    if ctx.scale > 1:  # thorough / extended search: add random points around every boundary
        for _ in range(400 * min(ctx.scale, 20)):
            k = ctx.rng.randrange(0, 65)
            base.add(ctx.rng.choice((1, -1)) * 2**k + ctx.rng.randrange(-3, 4))
        xs = sorted(base)
    return xs


def narrowest(mx, mn):
    signed = mn < 0
    for name in (["int8", "int16", "int32", "int64"] if signed else ["uint8", "uint16", "uint32", "uint64"]):
        lo, hi = RANGES[name]
        if lo <= mn and mx <= hi:
            return name
    return None


def call_sites(ctx):
    """the three call sites named by the property hand fit_dtype the right extremes: the INDX coordinate word, the
    default dtype of dense output, the output of collapsed"""
    import numpy as np
    import indx_common as X
    import gen_cube as G
    from catii import iindex
    B = [0, 1, 2, 127, 128, 255, 256, 257, 32767, 32768, 65535, 65536, 2**31 - 1, 2**31, 2**32 - 1, 2**32, 2**40]
    for _ in range(ctx.n(120)):
        # (a) INDX: boundary coordinates in ANY key and ANY axis, or only in the common value
        nax = ctx.rng.choice([1, 2, 2, 3])
        nkeys = ctx.rng.randrange(0, 5)
        keys = set()
        for _k in range(nkeys):
            keys.add(tuple(ctx.rng.choice(B + [3, 4, 5]) if ctx.rng.random() < 0.4 else ctx.rng.randrange(0, 6) for _a in range(nax)))
        common = ctx.rng.choice(B)
        entries = {k: np.array(sorted(ctx.rng.sample(range(50), ctx.rng.randrange(1, 4))), dtype=np.uint32) for k in sorted(keys)}
        if ctx.rng.random() < 0.5:       # dictionary order is not sorted order
            items = list(entries.items())
            ctx.rng.shuffle(items)
            entries = dict(items)
        desc = {"site": "indx", "keys": [list(k) for k in entries], "common": common}
        ctx.case(desc, nontrivial=bool(entries))
        ctx.hit("site:indx")
        st, b = X.impl_save([[list(k), v.tolist()] for k, v in entries.items()], common)
        if st != "ok":
            ctx.oracle_fail("IndxIO.save raised %s for in-range coordinates" % b, desc, cls="C19-site-indx")
            continue
        try:
            _, _, wi, _ = X.spec_decode(b)
        except Exception as e:
            ctx.oracle_fail("the saved file does not parse (%s)" % e, desc, cls="C19-site-indx")
            continue
        mx = max([c for k in entries for c in k] + [common])
        want = BITS[narrowest(mx, 0)] // 8
        if wi != want:
            ctx.oracle_fail("INDX coordinate word is %d bytes but the largest coordinate / common value %d needs %s %d" % (
                wi, mx, "at least" if wi < want else "only", want), desc, cls="C19-site-indx")
    for _ in range(ctx.n(120)):
        # (b) dense output: default dtype of to_array for boundary values (negatives included), common only / entries only
        N = ctx.rng.randrange(1, 6)
        vals = [ctx.rng.choice(B + [-1, -128, -129, -32768, -32769, -2**31, -2**31 - 1]) for _v in range(ctx.rng.randrange(1, 4))]
        vals = [v for v in vals if abs(v) < 2**62]
        a = np.array([ctx.rng.choice(vals) for _r in range(N)], dtype=np.int64)
        common = ctx.rng.choice(vals + [ctx.rng.choice(B[:14])])
        ix = G.make_index(a, common)
        desc = {"site": "to_array", "values": a.tolist(), "common": int(common)}
        ctx.case(desc)
        ctx.hit("site:to_array")
        try:
            out = ix.to_array()
        except Exception as e:
            ctx.oracle_fail("to_array() raised %s: %s" % (type(e).__name__, str(e)[:60]), desc, cls="C19-site-to_array")
            continue
        listed = [int(k[0]) for k in ix] + [int(ix.common)]
        want = narrowest(max(listed), min(min(listed), 0))
        if out.dtype.name != want:
            ctx.oracle_fail("to_array() chose %s for values in [%d, %d]; the narrowest sufficient type of that signedness is %s" % (
                out.dtype.name, min(listed), max(listed), want), desc, cls="C19-site-to_array")
        elif not np.array_equal(out.astype(object), a.astype(object)):
            ctx.oracle_fail("to_array() wrapped a value", desc, cls="C19-site-to_array")
        # the same index object later in its life: changed in place so that another width / signedness is needed
        # (a wider or a first negative value arrives, or the only wide value leaves), then asked for its array again
        a2 = a.copy()
        how = ctx.rng.choice(["setitem", "union_update", "update", "shift_common", "delitem", "difference_update", "append"])
        newv = ctx.rng.choice([v for v in B[:16] + [-1, -129, -32769, -2**31 - 1] if v != common and v not in a2.tolist()] or [7])
        r = ctx.rng.randrange(N)
        try:
            if how in ("setitem", "union_update", "update"):
                if a2[r] != common and how != "update":
                    ix2 = None
                else:
                    rows = np.array([r], dtype=np.uint32)
                    if how == "setitem":
                        ix[(int(newv),)] = rows
                    elif how == "union_update":
                        ix.union_update({(int(newv),): rows})
                    else:
                        ix.update({(int(newv),): rows})
                    a2[r] = newv
                    ix2 = ix
            elif how == "shift_common":
                ix.shift_common(int(newv))
                ix2 = ix
            elif how in ("delitem", "difference_update"):
                big = max([int(k[0]) for k in ix] or [None], key=lambda v: abs(v)) if len(ix) else None
                if big is None:
                    ix2 = None
                else:
                    rows = ix[(big,)].copy()
                    if how == "delitem":
                        del ix[(big,)]
                    else:
                        ix.difference_update({(big,): rows})
                    a2[a2 == big] = common
                    ix2 = ix
            else:
                other = G.make_index(np.array([newv], dtype=np.int64), int(common))
                ix.append(other)
                a2 = np.concatenate([a2, [newv]])
                ix2 = ix
        except Exception as e:
            ctx.oracle_fail("%s on the index raised %s: %s" % (how, type(e).__name__, str(e)[:60]), dict(desc, then=how), cls="C19-site-to_array")
            continue
        if ix2 is None:
            continue
        d2 = dict(desc, then=[how, int(newv), int(r)])
        ctx.case(d2)
        ctx.hit("site:to_array_after_" + how)
        try:
            out2 = ix2.to_array()
        except Exception as e:
            ctx.oracle_fail("to_array() after %s raised %s: %s" % (how, type(e).__name__, str(e)[:60]), d2, cls="C19-site-to_array")
            continue
        listed = [int(k[0]) for k in ix2] + [int(ix2.common)]
        want = narrowest(max(listed), min(min(listed), 0))
        if out2.dtype.name != want:
            ctx.oracle_fail("to_array() after %s chose %s for values in [%d, %d]; the narrowest sufficient type of that signedness is %s" % (
                how, out2.dtype.name, min(listed), max(listed), want), d2, cls="C19-site-to_array")
        elif not np.array_equal(out2.astype(object), a2.astype(object)):
            ctx.oracle_fail("to_array() after %s gives %s, expected %s" % (how, out2.tolist(), a2.tolist()), d2, cls="C19-site-to_array")
    for _ in range(ctx.n(60)):
        # (c) collapsed: precedence values at the boundaries must come back unchanged
        N, C = ctx.rng.randrange(1, 5), ctx.rng.randrange(1, 4)
        vals = sorted(set(ctx.rng.choice([0, 1, 127, 128, 255, 256, 32767, 32768, 65535, 65536, -1, -128, -129, -32768, -32769]) for _v in range(3)))
        a = np.array([[ctx.rng.choice(vals) for _c in range(C)] for _r in range(N)], dtype=np.int64)
        prec = list(vals)
        ctx.rng.shuffle(prec)
        ix = G.make_index(a, ctx.rng.choice(vals))
        desc = {"site": "collapsed", "values": a.tolist(), "precedence": prec, "common": int(ix.common)}
        ctx.case(desc)
        ctx.hit("site:collapsed")
        try:
            got = ix.collapsed(list(prec)).to_array(dtype=np.int64)
        except Exception as e:
            ctx.oracle_fail("collapsed raised %s: %s" % (type(e).__name__, str(e)[:60]), desc, cls="C19-site-collapsed")
            continue
        want = np.array([next(p for p in prec if p in set(row.tolist())) for row in a], dtype=np.int64)
        if not np.array_equal(got, want):
            ctx.oracle_fail("collapsed gives %s, expected %s (a boundary value wrapped?)" % (got.tolist(), want.tolist()), desc,
                            cls="C19-site-collapsed")


def wide_collapse(ctx):
    """collapsed() over many columns: its per-row column counter has to hold the number of columns (127/128, 255/256,
    300), whatever the precedence values look like (signed, unsigned, wide)"""
    import numpy as np
    import gen_cube as G
    for ncols in ([127, 128, 200, 255, 256, 300] if ctx.scale == 1 else [127, 128, 129, 200, 255, 256, 257, 300, 1000]):
        for prec in ([1, 0, -1], [2, 1, 0], [1, 0, 2], [300, 1, 0], [0, 1, 2**40]):
            N = 3
            a = np.zeros((N, ncols), dtype=np.int64)
            a[0, :] = prec[0]                      # a row made of the first listed value only
            a[1, ctx.rng.randrange(ncols)] = prec[1] if prec[1] != 0 else prec[0]
            common = ctx.rng.choice([0, prec[0]])
            ix = G.make_index(a, common)
            desc = {"site": "collapsed_wide", "columns": ncols, "precedence": prec, "common": int(common)}
            ctx.case(desc)
            ctx.hit("site:collapsed_wide")
            try:
                got = ix.collapsed(list(prec)).to_array(dtype=np.int64)
            except Exception as e:
                ctx.oracle_fail("collapsed over %d columns with precedence %s raised %s: %s" % (ncols, prec, type(e).__name__, str(e)[:60]),
                                desc, cls="C19-site-collapsed")
                continue
            want = np.array([next((p for p in prec if p in set(row.tolist())), prec[-1]) for row in a], dtype=np.int64)
            if not np.array_equal(got, want):
                ctx.oracle_fail("collapsed over %d columns gives %s, expected %s (the column counter wrapped?)" % (
                    ncols, got.tolist(), want.tolist()), desc, cls="C19-site-collapsed")


def run(ctx):
    catii = core.load_catii()
    from catii.iindexes import fit_dtype
    xs = points(ctx)
    maxs = [x for x in xs if -2**63 <= x <= 2**64 - 1]
    mins = [x for x in xs if -2**63 <= x <= 0]
    reqs, keys, real = [], [], []
    for mx in maxs:
        for mn in mins:
            try:
                name = fit_dtype(mx, mn).name
            except Exception as e:  # fit_dtype is total on ints; anything else is reported via the oracle
                name = "raise:" + type(e).__name__
            dom = in_dom(mx, mn)
            ctx.case({"max": mx, "min": mn, "impl": name}, nontrivial=dom)
            ctx.hit("in_domain" if dom else "outside_domain")
            ctx.hit("result:" + name)
            if dom:
                why = (oracle(name, mx, mn) if name in RANGES else "fit_dtype(%d, %d) raised %s" % (mx, mn, name))
                if why:
                    ctx.oracle_fail(why, {"max": mx, "min": mn, "impl": name}, cls="C19-wrong-dtype")
            keys.append((mx, mn))
            real.append(name)
            reqs.append({"op": "fit_dtype", "max": mx, "min": mn})
    # one-argument form (the three call sites pass only a maximum)
    for mx in maxs:
        if mx > 2**63 - 1 and mx < 0:
            continue
        try:
            name = fit_dtype(mx).name
        except Exception as e:
            name = "raise:" + type(e).__name__
        mn = mx if mx < 0 else 0
        ctx.case({"max": mx, "impl1": name}, nontrivial=True)
        why = oracle(name, mx, mn) if name in RANGES else "fit_dtype(%d) raised" % mx
        if why:
            ctx.oracle_fail(why + " (one-argument form)", {"max": mx, "impl": name}, cls="C19-wrong-dtype")
    ctx.exhaustive.append("all %d x %d grid points (powers of two ±1 and source constants ±1)" % (len(maxs), len(mins)))
    call_sites(ctx)
    wide_collapse(ctx)
    if ctx.oracle_only:
        return
    ans = ctx.model.run(reqs)
    for (mx, mn), r, m in zip(keys, real, ans):
        if r != m:
            ctx.corr_fail("fit_dtype(%d, %d): impl %s, regenerated model %s" % (mx, mn, r, m), {"max": mx, "min": mn})
    # INDX tables (regenerated constants) vs the real helpers, every size 0..16
    from catii.indxio import IndxIO
    import struct
    treq = [{"op": "indx_tables", "size": s} for s in range(0, 17)]
    for s, m in zip(range(0, 17), ctx.model.run(treq)):
        real_t = {"fmt": struct.calcsize(IndxIO.format(s)), "dtype": IndxIO.dtype(s).name}
        if real_t != m:
            ctx.corr_fail("INDX width tables at size %d: impl %s, regenerated %s" % (s, real_t, m), {"size": s})


def replay(ctx, rep):
    core.load_catii()
    from catii.iindexes import fit_dtype
    c = rep["case"]
    name = fit_dtype(c["max"], c.get("min", 0)).name
    return oracle(name, c["max"], c.get("min", c["max"] if c["max"] < 0 else 0)) is None
