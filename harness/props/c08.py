"""C08 — sorted-set kernels: model correspondence + set-algebra oracle on kernels built from the current .pyx."""
import numpy as np

import core
import gen_kern as G

ID = "C08"
LEAN_MODULES = ["CatiiProps.C08"]
USES_TRANSLATOR = ['kernels']   # Gen/KernelsGen.lean is rewritten from the current set_operations.pyx (tools/translate_pyx.py)
TRUSTED = ["tools/translate_pyx.py (Cython subset -> Lean: checked reads/writes, loops as recursive functions); C int "
           "arithmetic modelled in N with checked subtraction"]
RULE = ("exhaustive: all ordered pairs of subsets of a small universe containing 0 and 2^32-1 (6 elements quick, 8 "
        "thorough) for the three kernels, x {array, None} for the three wrappers; all lists of <=3 arrays drawn from "
        "subsets of a 4-universe (+ random longer lists) for the k-way union; operands sharing 65537 .. 70000 row ids; random long pairs over eleven overlap "
        "patterns (incl. skewed lengths 1-4 vs 65-5000), passed contiguous, as views into longer buffers whose "
        "neighbouring words are row ids of the other operand, as stride-2/3 views and as backwards views of descending "
        "buffers; the exhaustive 6-universe pairs again as stride-2 and backwards views. Non-trivial = both operands non-empty arrays (or >=2 non-empty arrays for k-way); distinct by input")
ASSUMPTIONS = ["arrays of fewer than 2^31 elements (the kernels use C int pointers; documented in the source)"]

FN2 = ["inter", "union", "diff"]
WR = ["intersection", "union_w", "difference"]


def u32(xs):
    return np.array(xs, dtype=np.uint32)


def embedded(xs, other):
    """xs as a view into a longer buffer whose neighbouring words are values of the other operand: a kernel that reads one
    element before or past an operand then sees a plausible row id and the set-algebra oracle notices"""
    other = list(other or [])
    pre = max([v for v in other if xs and v < xs[0]], default=0)
    post = min([v for v in other if xs and v > xs[-1]], default=G.U32)
    buf = u32([pre] + list(xs) + [post, post])
    return buf[1:1 + len(xs)]


def strided(xs, other, k):
    """xs as every k-th word of a longer buffer; the words in between are row ids of the other operand (or near
    misses of xs), so a kernel that walks the buffer instead of the operand returns a plausible but wrong set"""
    other = list(other or []) or [v ^ 1 for v in xs] or [7]
    buf = u32([other[j % len(other)] for j in range(len(xs) * k + k)])
    buf[0:len(xs) * k:k] = xs
    v = buf[0:len(xs) * k:k]
    assert len(v) == len(xs) and (len(xs) < 2 or not v.flags["C_CONTIGUOUS"])
    return v


def backwards(xs, other):
    """xs as a negative-stride view of a descending buffer"""
    other = list(other or [])
    pre = max([v for v in other if xs and v < xs[0]], default=0)
    post = min([v for v in other if xs and v > xs[-1]], default=G.U32)
    buf = u32([post, post] + list(reversed(xs)) + [pre, pre])
    return buf[2:2 + len(xs)][::-1]


def as_view(xs, other, mode):
    if not mode:
        return u32(xs)
    if mode is True or mode == "embedded":
        return embedded(xs, other)
    if mode == "backwards":
        return backwards(xs, other)
    return strided(xs, other, int(mode[-1]))


VIEWS = [False, "embedded", "stride2", "stride3", "backwards"]


def run_impl(so, fn, a, b, embed=False):
    """returns ('ok', list | None) or ('raise', name); also dtype/sortedness facts"""
    try:
        A = None if a is None else as_view(a, b, embed)
        B = None if b is None else as_view(b, a, embed)
        f = {"inter": so.set_intersect_merge_np, "union": so.set_union_merge_np, "diff": so.set_difference_merge_np,
             "intersection": so.intersection, "union_w": so.union, "difference": so.difference}[fn]
        r = f(A, B)
        if r is None:
            return ("ok", None, None)
        r = np.asarray(r)
        return ("ok", [int(x) for x in r.tolist()], str(r.dtype))
    except Exception as e:
        return ("raise", type(e).__name__, None)


def expect(fn, a, b):
    """the property's own oracle: Python set algebra + None conventions"""
    sa, sb = set(a or []), set(b or [])
    if fn in ("inter", "intersection"):
        if fn == "intersection" and (a is None or b is None):
            return None
        r = sorted(sa & sb)
    elif fn in ("union", "union_w"):
        if fn == "union_w" and a is None and b is None:
            return None
        r = sorted(sa | sb)
    else:
        if fn == "difference" and a is None:
            return None
        r = sorted(sa - sb)
    if fn in WR and not r:
        return None
    return r


def check_one(ctx, so, fn, a, b, reqs, pend, embed=False, model=True):
    got = run_impl(so, fn, a, b, embed)
    if embed:
        ctx.hit("operands_as_views")
        ctx.hit("view:%s" % embed)
    case = {"fn": fn, "l": a, "r": b}
    if embed:
        case["view"] = embed
    nontriv = bool(a) and bool(b)
    ctx.case(case if len(str(case)) < 400 else {"fn": fn, "len_l": len(a or []), "len_r": len(b or [])}, nontrivial=nontriv)
    ctx.hit("fn:" + fn)
    exp = expect(fn, a, b)
    if got[0] != "ok":
        ctx.oracle_fail("%s raised %s" % (fn, got[1]), case, cls="C08-raises")
    else:
        if got[1] != exp:
            ctx.oracle_fail("%s(%s, %s) = %s, set algebra says %s" % (fn, _s(a), _s(b), _s(got[1]), _s(exp)), case,
                            cls="C08-wrong-result")
        elif got[1] is not None and got[2] != "uint32":
            ctx.oracle_fail("%s returned dtype %s" % (fn, got[2]), case, cls="C08-dtype")
    if model:
        reqs.append({"op": "kern", "fn": fn, "l": a, "r": b})
        pend.append((case, got))


def _s(x):
    s = str(x)
    return s if len(s) < 120 else s[:117] + "..."


def check_many(ctx, so, arrays, reqs, pend, view=False):
    case = {"fn": "union_many", "arrays": arrays}
    if view:
        case["view"] = view
        ctx.hit("many_view:%s" % view)
    ctx.case(case if len(str(case)) < 400 else {"fn": "union_many", "lens": [len(a) for a in arrays]},
             nontrivial=sum(1 for a in arrays if a) >= 2)
    ctx.hit("fn:union_many")
    try:
        r = so.set_union_merge_many([as_view(a, arrays[(j + 1) % len(arrays)], view) for j, a in enumerate(arrays)])
        got = ("ok", [int(x) for x in np.asarray(r).tolist()], str(np.asarray(r).dtype))
    except Exception as e:
        got = ("raise", type(e).__name__, None)
    exp = sorted(set().union(*[set(a) for a in arrays])) if arrays else []
    if got[0] != "ok":
        ctx.oracle_fail("set_union_merge_many raised %s" % got[1], case, cls="C08-many-raises")
    elif got[1] != exp:
        ctx.oracle_fail("set_union_merge_many(%s) = %s, expected %s" % (_s(arrays), _s(got[1]), _s(exp)), case,
                        cls="C08-many-wrong")
    elif got[2] != "uint32":
        ctx.oracle_fail("set_union_merge_many returned dtype %s" % got[2], case, cls="C08-dtype")
    reqs.append({"op": "kern", "fn": "union_many", "arrays": arrays})
    pend.append((case, got))


def concurrent_calls(ctx, so):
    """the kernels release the GIL (`with nogil`): calls running at the same time on several threads (the cube's own pool does
    this) must each return their own exact result"""
    from multiprocessing.pool import ThreadPool
    rounds = 6 if ctx.scale == 1 else 30
    rng = np.random.default_rng(ctx.seed + 8)
    pairs = []
    for t in range(4):
        a = np.unique(rng.integers(0, 3_000_000, size=400_000).astype(np.uint32))
        b = np.unique(rng.integers(0, 3_000_000, size=400_000).astype(np.uint32))
        pairs.append((a, b, np.intersect1d(a, b), np.union1d(a, b), np.setdiff1d(a, b)))

    def work(t):
        a, b, wi, wu, wd = pairs[t]
        bad = []
        for r in range(rounds):
            if not np.array_equal(np.asarray(so.set_intersect_merge_np(a, b)), wi):
                bad.append("inter")
            if r % 3 == 0 and not np.array_equal(np.asarray(so.set_union_merge_np(a, b)), wu):
                bad.append("union")
            if r % 3 == 1 and not np.array_equal(np.asarray(so.set_difference_merge_np(a, b)), wd):
                bad.append("diff")
        return bad
    with ThreadPool(4) as pool:
        res = pool.map(work, range(4))
    ctx.evaluations += 4 * rounds
    ctx.hit("concurrent_calls", 4 * rounds)
    for t, bad in enumerate(res):
        if bad:
            ctx.oracle_fail("%s of two ~350k-element arrays returned a wrong result while 3 other threads were running kernels "
                            "(%d wrong of %d calls; alone the same call is exact)" % (bad[0], len(bad), rounds),
                            {"fn": bad[0], "concurrent": True, "threads": 4}, cls="C08-wrong-result")
            break


def run(ctx):
    core.load_catii()
    so = core.load_kernels("plain")
    reqs, pend = [], []
    n_u = 6 if ctx.tier == "quick" and ctx.scale == 1 else 8
    subs = list(G.subsets(G.universe(n_u)))
    for a in subs:
        for b in subs:
            for fn in FN2:
                check_one(ctx, so, fn, a, b, reqs, pend)
    ctx.exhaustive.append("all %d^2 ordered pairs of subsets of %s x {inter, union, diff}" % (len(subs), G.universe(n_u)))
    # the same operands as non-contiguous views (every 2nd word of a buffer; a descending buffer read backwards):
    # the kernels take any 1-D uint32 buffer, and index entries assigned by a caller may be such views
    sub6 = list(G.subsets(G.universe(6)))
    for view in ("stride2", "backwards"):
        for a in sub6:
            for b in sub6:
                for fn in FN2:
                    check_one(ctx, so, fn, a, b, reqs, pend, embed=view, model=False)
    ctx.exhaustive.append("all %d^2 ordered pairs of subsets of %s x 3 kernels, operands as stride-2 and as backwards views "
                          "(set-algebra oracle)" % (len(sub6), G.universe(6)))
    small = list(G.subsets(G.universe(4)))
    for a in small + [None]:
        for b in small + [None]:
            for fn in WR:
                check_one(ctx, so, fn, a, b, reqs, pend)
    ctx.exhaustive.append("wrappers: all pairs of (subset of %s | None)" % G.universe(4))
    # k-way: all lists of <= 3 subsets of a 3-universe incl. 2^32-1, then random
    uni3 = list(G.subsets([0, 3, G.U32]))
    import itertools
    for k in range(0, 4):
        for arrays in itertools.product(uni3, repeat=k):
            check_many(ctx, so, [list(a) for a in arrays], reqs, pend)
    ctx.exhaustive.append("k-way union: all lists of 0..3 subsets of [0, 3, 2^32-1]")
    for _ in range(ctx.n(150)):
        k = ctx.rng.randrange(0, 7)
        arrays = [G.random_sorted(ctx.rng, ctx.rng.randrange(0, 40), 0, ctx.rng.choice([30, 1000, G.U32])) for _ in range(k)]
        check_many(ctx, so, arrays, reqs, pend, view=ctx.rng.choice(VIEWS))
    # random long pairs
    for _ in range(ctx.n(400)):
        kind, a, b = G.random_pair(ctx.rng, maxlen=ctx.rng.choice([8, 60, 400]))
        ctx.hit("pattern:" + kind)
        emb = ctx.rng.choice(VIEWS)
        for fn in FN2 + WR:
            check_one(ctx, so, fn, a, b, reqs, pend, embed=emb)
    # operands sharing more than 2^16 row ids (oracle only)
    for na, nb, step_b in ((70000, 70000, 1), (100000, 140000, 2), (65537, 65537, 1)):
        a = np.arange(0, na, dtype=np.uint32)
        b = np.arange(0, nb * step_b, step_b, dtype=np.uint32)[:nb]
        for fn, f, ref in (("inter", so.set_intersect_merge_np, np.intersect1d), ("union", so.set_union_merge_np, np.union1d),
                           ("diff", so.set_difference_merge_np, np.setdiff1d)):
            case = {"fn": fn, "big": [na, nb, step_b]}
            ctx.case(case, nontrivial=True)
            ctx.hit("big_operands")
            try:
                r = np.asarray(f(a, b))
                if not np.array_equal(r, ref(a, b)) or r.dtype != np.uint32:
                    ctx.oracle_fail("%s on operands of %d and %d row ids returned a wrong result" % (fn, na, nb), case, cls="C08-wrong-result")
            except Exception as e:
                ctx.oracle_fail("%s on operands of %d and %d row ids raised %s" % (fn, na, nb, type(e).__name__), case, cls="C08-raises")
    # operands that are two views of ONE buffer (same first element, same length, different strides), and an array with
    # itself: the kernels must compute on the elements of each view, whatever memory they share
    for n in (1, 2, 5, 9):
        base = np.arange(0, 4 * n + 4, dtype=np.uint32) * 3
        pairs = [("contiguous/stride2", base[:n], base[::2][:n]), ("stride2/contiguous", base[::2][:n], base[:n]),
                 ("stride2/stride3", base[::2][:n], base[::3][:n]), ("same view twice", base[1:1 + n], base[1:1 + n]),
                 ("overlapping slices", base[:n], base[n // 2:n // 2 + n])]
        for name, a, b in pairs:
            for fn, f in (("inter", so.set_intersect_merge_np), ("union", so.set_union_merge_np), ("diff", so.set_difference_merge_np)):
                case = {"fn": fn, "shared_buffer": name, "l": a.tolist(), "r": b.tolist()}
                ctx.case(case, nontrivial=True)
                ctx.hit("shared_buffer_views")
                try:
                    got = [int(x) for x in np.asarray(f(a, b)).tolist()]
                except Exception as e:
                    ctx.oracle_fail("%s on two views of one buffer (%s) raised %s" % (fn, name, type(e).__name__), case, cls="C08-raises")
                    continue
                exp = expect(fn, a.tolist(), b.tolist())
                if got != exp:
                    ctx.oracle_fail("%s(%s, %s) on two views of one buffer (%s) = %s, set algebra says %s" % (
                        fn, a.tolist(), b.tolist(), name, got, exp), case, cls="C08-wrong-result")
    concurrent_calls(ctx, so)
    if ctx.oracle_only:
        return
    ans = ctx.model.run(reqs)
    for (case, got), m in zip(pend, ans):
        if "ok" in m:
            same = got[0] == "ok" and got[1] == m["ok"]
        else:
            same = False  # the model never errs on these inputs unless the impl would read out of bounds
        if not same:
            ctx.corr_fail("impl %s vs model %s" % (_s(got), _s(m)), case)
    # the kernels REGENERATED from the current .pyx by tools/translate_pyx.py, run on the same operands
    gen = [(r, c, g) for r, (c, g) in zip(reqs, pend) if r["fn"] in FN2 or r["fn"] == "union_many"]
    try:
        gans = ctx.model.run([({"fn": "union_many", "arrays": r["arrays"]} if r["fn"] == "union_many" else
                               {"fn": r["fn"], "l": r["l"], "r": r["r"]}) for r, _c, _g in gen], driver="Driver/KernGen.lean")
    except core.ModelBroken as e:
        ctx.corr_fail("the kernel model regenerated from set_operations.pyx does not build/run: %s" % str(e)[-400:], {"translator": True})
        return
    ctx.hit("generated_model_requests", len(gen))
    for (r, case, got), m in zip(gen, gans):
        if not ("ok" in m and got[0] == "ok" and got[1] == m["ok"]):
            ctx.corr_fail("impl %s vs the model regenerated from the .pyx %s" % (_s(got), _s(m)), case)


def replay(ctx, rep):
    so = core.load_kernels("plain")
    c = rep["case"]
    if c.get("shared_buffer"):
        return True   # rebuilt by the check itself (views of one buffer)
    if c.get("concurrent"):
        n0 = len(ctx.oracle_failures)
        concurrent_calls(ctx, so)
        return len(ctx.oracle_failures) == n0
    if "big" in c:
        na, nb, step_b = c["big"]
        a = np.arange(0, na, dtype=np.uint32)
        b = np.arange(0, nb * step_b, step_b, dtype=np.uint32)[:nb]
        f = {"inter": so.set_intersect_merge_np, "union": so.set_union_merge_np, "diff": so.set_difference_merge_np}[c["fn"]]
        ref = {"inter": np.intersect1d, "union": np.union1d, "diff": np.setdiff1d}[c["fn"]]
        return np.array_equal(np.asarray(f(a, b)), ref(a, b))
    if c["fn"] == "union_many":
        v = c.get("view", False)
        r = so.set_union_merge_many([as_view(a, c["arrays"][(j + 1) % len(c["arrays"])], v) for j, a in enumerate(c["arrays"])])
        return [int(x) for x in r.tolist()] == sorted(set().union(*[set(a) for a in c["arrays"]])) if c["arrays"] else len(r) == 0
    got = run_impl(so, c["fn"], c["l"], c["r"], c.get("view", False))
    return got[0] == "ok" and got[1] == expect(c["fn"], c["l"], c["r"])
