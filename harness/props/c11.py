"""C11 — INDX files are byte-for-byte the documented layout (both directions)."""
import struct
import tempfile

import numpy as np

import core
import indx_common as X

ID = "C11"
LEAN_MODULES = ["CatiiProps.C11"]
USES_TRANSLATOR = ['fit_dtype', 'consts', 'indx_save', 'indx_load']
RULE = ("cases as C10; for each: impl bytes == bytes of an independent encoder written from the format docstring (and == "
        "the Lean model's bytes); independent decoder recovers the data from impl bytes; impl loader recovers the data from "
        "independently encoded bytes for every legal coordinate word size >= the narrowest and row-id word sizes 1/2/4/8 (also with entry lengths that add up past the range of a 1- or 2-byte row-id word); "
        "entries of 2^16-1 .. 2^17+5 row ids mixed with short ones in every order (bytes vs the independent encoder, loader round trip); size field checked at 2^30-1, 2^30, 2^32+5 total row ids with duck-typed arrays (nothing materialised). "
        "Non-trivial = at least one entry; distinct by (input, widths)")
ASSUMPTIONS = ["the class docstring of IndxIO is the format specification", "little-endian platform"]


class Duck:
    """stands for a row-id array of n words without holding them; it has the attributes of an ndarray a writer may look at"""
    dtype = np.dtype(np.uint32)
    base = None
    ndim = 1
    flags = np.zeros(1, dtype=np.uint32).flags

    @property
    def shape(self):
        return (self.n,)

    @property
    def size(self):
        return self.n

    @property
    def nbytes(self):
        return self.n * 4

    def __init__(self, n):
        self.n = n

    def __len__(self):
        return self.n

    def tofile(self, f):
        f.seek(self.n * 4, 1)


def size_field_case(ctx, total, parts, reqs, pend):
    from catii.indxio import IndxIO
    lens = [total // parts] * (parts - 1) + [total - (total // parts) * (parts - 1)]
    entries = {(i + 1,): Duck(l) for i, l in enumerate(lens)}
    case = {"duck_total_rowids": total, "entries": parts, "common": 0}
    ctx.case(case, nontrivial=True)
    ctx.hit("size_field_big")
    expected = 1 + 4 + 1 + 1 + parts * 1 + 1 + parts * 4 + total * 4
    with tempfile.TemporaryFile() as f:
        err = None
        try:
            import warnings
            with warnings.catch_warnings():
                warnings.simplefilter("ignore")
                IndxIO.save(f, entries, 0, np.dtype(np.uint32))
            pos = f.tell()
        except Exception as e:
            err = type(e).__name__ + ": " + str(e)
            pos = None
        f.seek(8)
        raw = f.read(8)
        size = struct.unpack("<Q", raw)[0] if len(raw) == 8 else None
    if err is not None or size != expected or pos != 16 + expected:
        ctx.oracle_fail("total row ids %d: recorded payload size %s, real payload length %d%s" % (
            total, size, expected, "; save raised " + err if err else ""), case, cls="C11-size-overflow")
    reqs.append({"op": "indx_size", "n": parts, "arity": 1, "wi": 1, "wr": 4, "total": total})
    pend.append(("size", case, size))


def check_case(ctx, ld, case, reqs, pend):
    entries, common = case["entries"], case["common"]
    ctx.case(X.small_desc(case), nontrivial=bool(entries))
    sv = X.impl_save(entries, common, case.get("layout"), case.get("handle"))
    ctx.hit("rowid_layout:%s" % (case.get("layout") or "contiguous"))
    ctx.hit("file_handle:%s" % (case.get("handle") or "TemporaryFile"))
    if sv[0] != "ok":
        ctx.oracle_fail("save raised %s" % sv[1], X.small_desc(case), cls="C11-save-raises")
        return
    b = sv[1]
    spec = X.spec_encode(entries, common)
    if b != spec:
        i = next((i for i, (x, y) in enumerate(zip(b, spec)) if x != y), min(len(b), len(spec)))
        ctx.oracle_fail("bytes differ from the documented layout at offset %d: wrote %s, layout says %s" % (
            i, b[i:i + 12].hex(), spec[i:i + 12].hex()), X.small_desc(case), cls="C11-bytes")
    try:
        dec = X.spec_decode(b)
        if X.canon(dec[0]) != X.canon(entries) or dec[1] != common:
            ctx.oracle_fail("independent decoder recovers different data from the written file", X.small_desc(case),
                            cls="C11-bytes")
    except Exception as e:
        ctx.oracle_fail("independent decoder rejects the written file (%s)" % e, X.small_desc(case), cls="C11-bytes")
    reqs.append({"op": "indx_save", "entries": entries, "common": common})
    pend.append(("bytes", case, b))
    # reverse direction: library loader on independently encoded bytes, other legal widths
    mx = max([common] + [c for k, _ in entries for c in k])
    mxr = max([x for _, r in entries for x in r] + [len(r) for _, r in entries] + [0])
    for wi in (1, 2, 4, 8):
        if wi < X.width_for(mx):
            continue
        for wr in (1, 2, 4, 8):
            if mxr >= 256 ** wr:
                continue
            if (wi, wr) != (X.width_for(mx), 4) and ctx.rng.random() < 0.5 and ctx.scale == 1:
                continue
            ctx.hit("reader_widths:%d/%d" % (wi, wr))
            ib = X.spec_encode(entries, common, wi, wr)
            lo = ld.load(ib)
            c2 = dict(X.small_desc(case), wi=wi, wr=wr)
            ctx.case(c2, nontrivial=bool(entries))
            if lo[0] != "ok":
                ctx.oracle_fail("loader raised %s on a file laid out per the documentation (wi=%d, wr=%d)" % (
                    lo[1], wi, wr), c2, cls="C11-reader")
            elif lo[1] != X.canon(entries) or lo[2] != common or not lo[3]["dtype_u32"] or not lo[3]["key_types_int"]:
                ctx.oracle_fail("loader recovers different data from a documented-layout file (wi=%d, wr=%d): %s" % (
                    wi, wr, str(lo[1])[:150]), c2, cls="C11-reader")
            reqs.append({"op": "indx_layout", "entries": entries, "common": common, "wi": wi, "wr": wr})
            pend.append(("layout", c2, ib))
            reqs.append({"op": "indx_load", "hex": ib.hex()})
            pend.append(("load", c2, lo))


def long_case(ctx, ld, case):
    """entries with row-id arrays around 2^16 / 2^17 ids mixed with short ones: written bytes == documented layout,
    and the loader gives the same entries back (oracle only: the model is not asked to encode 10^5 words)"""
    entries = X.expand_long(case)
    ctx.case(case, nontrivial=True)
    ctx.hit("long_entries:" + "".join("l" if d[1] >= 65535 else "s" for d in case["long"]))
    sv = X.impl_save(entries, case["common"], case.get("layout"))
    if sv[0] != "ok":
        ctx.oracle_fail("save raised %s" % sv[1], case, cls="C11-save-raises")
        return
    spec = X.spec_encode(entries, case["common"])
    if sv[1] != spec:
        i = next((i for i, (x, y) in enumerate(zip(sv[1], spec)) if x != y), min(len(sv[1]), len(spec)))
        ctx.oracle_fail("bytes differ from the documented layout at offset %d (entries of %s row ids): wrote %s, layout says %s" % (
            i, [d[1] for d in case["long"]], sv[1][i:i + 12].hex(), spec[i:i + 12].hex()), case, cls="C11-bytes")
        return
    lo = ld.load(sv[1])
    if lo[0] != "ok" or lo[1] != X.canon(entries) or lo[2] != case["common"]:
        ctx.oracle_fail("loader does not give back entries of %s row ids" % [d[1] for d in case["long"]], case, cls="C11-reader")


def narrow_rowid_reader(ctx, ld, reqs, pend):
    """files an independent writer lays out with 1- or 2-byte row-id words whose lengths add up past the range of that
    word (each length and each row id still fits it): the loader must walk the row-id block with exact offsets"""
    for wr, L, n in ((1, 100, 3), (1, 128, 2), (1, 200, 2), (1, 255, 3), (2, 30000, 3), (2, 40000, 2)):
        step = 1 if wr == 1 else 2
        entries = [[[k + 1], list(range(k % 2, k % 2 + L * step, step))[:L]] for k in range(n)]
        entries = [[k, [r for r in rows if r < 256 ** wr]] for k, rows in entries]
        common = 0
        case = {"reader_rowid_word": wr, "entry_lengths": [len(r) for _, r in entries], "common": common}
        ctx.case(case, nontrivial=True)
        ctx.hit("reader_narrow_rowids:%d" % wr)
        ib = X.spec_encode(entries, common, None, wr)
        lo = ld.load(ib)
        if lo[0] != "ok":
            ctx.oracle_fail("loader raised %s on a documented-layout file with %d-byte row-id words and entry lengths %s" % (
                lo[1], wr, case["entry_lengths"]), case, cls="C11-reader")
        elif lo[1] != X.canon(entries) or lo[2] != common:
            bad = [k for (k, r), (k2, r2) in zip(X.canon(entries), lo[1]) if r != r2][:2]
            ctx.oracle_fail("loader recovers different row ids from a documented-layout file with %d-byte row-id words and entry "
                            "lengths %s (first differing keys %s: the lengths add up past the word's range)" % (
                                wr, case["entry_lengths"], bad), case, cls="C11-reader")
        if wr == 1:
            reqs.append({"op": "indx_load", "hex": ib.hex()})
            pend.append(("load", case, lo))


def run(ctx):
    core.load_catii()
    ld = X.Loader()
    try:
        reqs, pend = [], []
        for total, parts in ((2**30 - 1, 1), (2**30, 2), (2**32 + 5, 3)):
            size_field_case(ctx, total, parts, reqs, pend)
        for case in X.exhaustive_cases():
            if len(case["entries"]) <= 1 or ctx.scale > 1 or ctx.rng.random() < 0.25:
                check_case(ctx, ld, case, reqs, pend)
        # the widest coordinate sits in a later axis of a key that is not the greatest one (every word-size boundary)
        for big in (255, 256, 65535, 65536, 2**32 - 1, 2**32):
            for arity in (2, 3):
                lo, hi = [0] * (arity - 1) + [big], [1] + [2] * (arity - 1)
                for ents in ([[lo, [0, 3]], [hi, [1]]], [[hi, [1]], [lo, [0, 3]]]):
                    check_case(ctx, ld, {"entries": ents, "common": 0, "arity": arity}, reqs, pend)
        # the file handle the caller passes: write-only, append (new file), append+read, update, unbuffered
        for hd in ("wb", "ab", "a+b", "r+b", "unbuffered"):
            check_case(ctx, ld, {"entries": [[[1], [0, 2, 5]], [[300], [1, 4, X.U32]]], "common": 0, "arity": 1, "handle": hd}, reqs, pend)
        # row-id arrays that are non-contiguous views (a slice with a step, a matrix column, a reversed view)
        for lay in ("stride2", "column", "backwards"):
            for arity in (1, 2):
                check_case(ctx, ld, {"entries": [[[1] + [0] * (arity - 1), [0, 2, 5]], [[2] + [1] * (arity - 1), [1, 4, X.U32]]],
                                     "common": 0, "arity": arity, "layout": lay}, reqs, pend)
        narrow_rowid_reader(ctx, ld, reqs, pend)
        for fixed in (["s", "l"], ["l", "s"], ["s", "l", "s", "l"], None, None):
            long_case(ctx, ld, X.long_desc(ctx.rng, fixed))
        for _ in range(ctx.n(3) if ctx.scale > 1 else 0):
            long_case(ctx, ld, X.long_desc(ctx.rng))
        for _ in range(ctx.n(120)):
            check_case(ctx, ld, X.gen_case(ctx.rng, small=True), reqs, pend)
        if ctx.oracle_only:
            return
        for (kind, case, real), m in zip(pend, ctx.model.run(reqs)):
            if kind == "size":
                if m.get("size") != real:
                    ctx.corr_fail("size field: impl %s model %s" % (real, m), case)
            elif kind == "bytes":
                if m.get("ok") != real.hex():
                    ctx.corr_fail("save bytes: impl %s.. model %s.." % (real.hex()[:60], str(m)[:60]), case)
            elif kind == "layout":
                if m != real.hex():
                    ctx.corr_fail("independent Python encoder and Lean encodeWith disagree", case)
            else:
                if real[0] == "ok":
                    ok = "ok" in m and sorted(m["ok"]["entries"]) == real[1] and m["ok"]["common"] == real[2]
                else:
                    ok = "err" in m
                if not ok:
                    ctx.corr_fail("load of independent bytes: impl %s model %s" % (str(real[:3])[:100], str(m)[:100]), case)
    finally:
        ld.close()


def replay(ctx, rep):
    core.load_catii()
    c = rep["case"]
    if "duck_total_rowids" in c:
        c2 = core.Ctx(ID, "quick", 0)
        size_field_case(c2, c["duck_total_rowids"], c["entries"], [], [])
        return not c2.oracle_failures
    if "reader_rowid_word" in c:
        c2 = core.Ctx(ID, "quick", 0)
        ld = X.Loader()
        try:
            narrow_rowid_reader(c2, ld, [], [])
        finally:
            ld.close()
        return not c2.oracle_failures
    if "long" in c:
        c = dict(c, entries=X.expand_long(c))
    sv = X.impl_save(c["entries"], c["common"], c.get("layout"), c.get("handle"))
    return sv[0] == "ok" and sv[1] == X.spec_encode(c["entries"], c["common"])
