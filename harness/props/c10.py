"""C10 — INDX save then load is the identity."""
import numpy as np

import core
import indx_common as X

ID = "C10"
LEAN_MODULES = ["CatiiProps.C10"]
USES_TRANSLATOR = ['fit_dtype', 'consts']
RULE = ("exhaustive: arity<=2, <=2 entries, 4 width classes for the largest coordinate x 4 for the common value, row-id "
        "lists from {[], [0], [0, 2^32-1]}; random: arity 1..4, 0..30 entries, magnitudes crossed over the four word "
        "sizes, row-id lists of length 0..40 with values up to 2^32-1, the row-id arrays contiguous or non-contiguous views (step-2 slice, matrix column, reversed view); entries of 2^16-1 .. 2^17+5 row ids mixed with short ones in every order; 2^k-1, 2^k, 2^k+1 and 3*2^k ENTRIES (k = 8,12,13,14 quick; 4..16 thorough) at arity 1 and 2. Non-trivial = at least one entry; distinct by input")
ASSUMPTIONS = ["NumPy tofile/ndarray(buffer=) read and write little-endian fixed-width words on this platform"]


def check_case(ctx, ld, case, reqs, pend):
    entries, common = case["entries"], case["common"]
    ctx.case(X.small_desc(case), nontrivial=bool(entries))
    ctx.hit("arity:%d" % case.get("arity", 0))
    ctx.hit("widths:coord%d/common%d" % (case.get("coord_class", -1), case.get("common_class", -1)))
    if any(len(r) == 0 for _, r in entries):
        ctx.hit("has_empty_rowids")
    sv = X.impl_save(entries, common, case.get("layout"), case.get("handle"))
    ctx.hit("rowid_layout:%s" % (case.get("layout") or "contiguous"))
    ctx.hit("file_handle:%s" % (case.get("handle") or "TemporaryFile"))
    if sv[0] != "ok":
        ctx.oracle_fail("save raised %s" % sv[1], X.small_desc(case), cls="C10-save-raises")
        return
    lo = ld.load(sv[1])
    if lo[0] != "ok":
        ctx.oracle_fail("load of a just-saved file raised %s" % lo[1], X.small_desc(case), cls="C10-load-raises")
        return
    _, got, gcommon, facts, raw = lo
    if got != X.canon(entries) or gcommon != common:
        ctx.oracle_fail("load(save(e, c)) != (e, c): got common %r entries %s" % (gcommon, str(got)[:200]),
                        X.small_desc(case), cls="C10-roundtrip")
    elif not (facts["key_types_int"] and facts["keys_tuple"] and facts["dtype_u32"] and facts["common_int"]
              and facts["rowid_dtype"] == "uint32"):
        ctx.oracle_fail("loaded parts have wrong types: %s" % facts, X.small_desc(case), cls="C10-types")
    else:
        # the loaded parts rebuild an index equal to the saved one, and it validates
        from catii import iindex
        arity = case.get("arity", 1)
        nrows = max([r[-1] for _, r in entries if r] + [0]) + 1
        if arity <= 2 and all(k[0] != common for k, _ in entries):
            ncols = max([k[1] for k, _ in entries] + [0]) + 1 if arity == 2 else None
            if arity == 1 or ncols < 10**6:
                shape = (nrows,) if arity == 1 else (nrows, ncols)
                a = iindex({tuple(k): np.array(r, dtype=np.uint32) for k, r in entries}, common, shape)
                b = iindex(dict(raw), gcommon, shape)
                ctx.hit("rebuilt_index")
                try:
                    b.validate()
                    ok = (a == b)
                except Exception as e:
                    ok = False
                if not ok:
                    ctx.oracle_fail("rebuilt index differs from / fails validation against the saved one",
                                    X.small_desc(case), cls="C10-rebuild")
    reqs.append({"op": "indx_roundtrip", "entries": entries, "common": common})
    pend.append((case, sv[1], got, gcommon))


def long_case(ctx, ld, case):
    """entries of about 2^16 / 2^17 row ids mixed with short ones, saved and loaded back (oracle only)"""
    entries = X.expand_long(case)
    ctx.case(case, nontrivial=True)
    ctx.hit("long_entries:" + "".join("l" if d[1] >= 65535 else "s" for d in case["long"]))
    sv = X.impl_save(entries, case["common"], case.get("layout"))
    if sv[0] != "ok":
        ctx.oracle_fail("save raised %s" % sv[1], case, cls="C10-save-raises")
        return
    lo = ld.load(sv[1])
    if lo[0] != "ok":
        ctx.oracle_fail("load of a just-saved file raised %s" % lo[1], case, cls="C10-load-raises")
    elif lo[1] != X.canon(entries) or lo[2] != case["common"]:
        bad = [k for (k, r), (k2, r2) in zip(X.canon(entries), lo[1]) if k != k2 or r != r2][:2]
        ctx.oracle_fail("load(save(e, c)) != (e, c) for entries of %s row ids (first differing keys %s)" % (
            [d[1] for d in case["long"]], bad), case, cls="C10-roundtrip")


def many_case(ctx, ld, case):
    entries = X.expand_many(case)
    ctx.case(case, nontrivial=True)
    ctx.hit("many_entries")
    sv = X.impl_save(entries, case["common"], None)
    if sv[0] != "ok":
        ctx.oracle_fail("save raised %s" % sv[1], case, cls="C10-save-raises")
        return
    lo = ld.load(sv[1])
    if lo[0] != "ok":
        ctx.oracle_fail("load of a just-saved file of %d entries raised %s" % (case["many"], lo[1]), case, cls="C10-load-raises")
    elif lo[1] != X.canon(entries) or lo[2] != case["common"]:
        bad = [(k, r2) for (k, r), (k2, r2) in zip(X.canon(entries), lo[1]) if k != k2 or r != r2][:2]
        ctx.oracle_fail("load(save(e, c)) != (e, c) for %d entries (first differing: %s)" % (case["many"], bad), case, cls="C10-roundtrip")


def run(ctx):
    core.load_catii()
    ld = X.Loader()
    try:
        reqs, pend = [], []
        for case in X.exhaustive_cases():
            check_case(ctx, ld, case, reqs, pend)
        ctx.exhaustive.append("arity<=2 x <=2 entries x 4x4 width classes x row-id lists from {[],[0],[0,2^32-1]}")
        # the widest coordinate sits in a later axis of a key that is not the greatest one (every word-size boundary)
        for big in (255, 256, 65535, 65536, 2**32 - 1, 2**32):
            for arity in (2, 3):
                lo, hi = [0] * (arity - 1) + [big], [1] + [2] * (arity - 1)
                for ents in ([[lo, [0, 3]], [hi, [1]]], [[hi, [1]], [lo, [0, 3]]]):
                    check_case(ctx, ld, {"entries": ents, "common": 0, "arity": arity}, reqs, pend)
        # the file handle the caller passes: write-only, append (new file), append+read, update, unbuffered
        for hd in ("wb", "ab", "a+b", "r+b", "unbuffered"):
            check_case(ctx, ld, {"entries": [[[1], [0, 2, 5]], [[300], [1, 4, X.U32]]], "common": 0, "arity": 1, "handle": hd}, reqs, pend)
        # row-id arrays that are non-contiguous views (a slice with a step, a matrix column, a reversed view)
        for lay in ("stride2", "column", "backwards", "unpickled", "explicit_le", "derived_from_unpickled"):
            for arity in (1, 2):
                check_case(ctx, ld, {"entries": [[[1] + [0] * (arity - 1), [0, 2, 5]], [[2] + [1] * (arity - 1), [1, 4, X.U32]]],
                                     "common": 0, "arity": arity, "layout": lay}, reqs, pend)
        for fixed in (["s", "l"], ["l", "s"], ["s", "l", "s", "l"], None):
            long_case(ctx, ld, X.long_desc(ctx.rng, fixed))
        # the NUMBER of entries on and around every power of two (block-wise decoding, batch sizes), and three times one
        ks = (8, 12, 13, 14) if ctx.scale == 1 else range(4, 17)
        for n in sorted(set([2 ** k + d for k in ks for d in (-1, 0, 1)] + [3 * 2 ** k for k in ks])):
            for arity in (1, 2):
                many_case(ctx, ld, {"many": n, "arity": arity, "common": 0})
        for _ in range(ctx.n(250)):
            check_case(ctx, ld, X.gen_case(ctx.rng), reqs, pend)
        if ctx.oracle_only:
            return
        # C10's tie is semantic (what a save/load round trip returns), not byte-level: bytes are C11's business,
        # so a symmetric format change that keeps the round trip intact does not disturb this check.
        for (case, b, got, gcommon), m in zip(pend, ctx.model.run(reqs)):
            ok = "ok" in m and sorted(m["ok"]["entries"]) == got and m["ok"]["common"] == gcommon and m["ok"]["rw"] == 4
            if not ok:
                ctx.corr_fail("round trip differs: impl (%s, %s) model %s" % (str(got)[:80], gcommon, str(m)[:120]),
                              X.small_desc(case))
    finally:
        ld.close()


def replay(ctx, rep):
    core.load_catii()
    c = rep["case"]
    if "long" in c:
        c = dict(c, entries=X.expand_long(c))
    if "many" in c:
        c = dict(c, entries=X.expand_many(c))
    ld = X.Loader()
    try:
        sv = X.impl_save(c["entries"], c["common"], c.get("layout"), c.get("handle"))
        if sv[0] != "ok":
            return False
        lo = ld.load(sv[1])
        return lo[0] == "ok" and lo[1] == X.canon(c["entries"]) and lo[2] == c["common"]
    finally:
        ld.close()
