"""C03 — index cube, array cube and direct group-by agree on the shared aggregates."""
import itertools
from fractions import Fraction

import numpy as np

import agg_common as A
import core
import gen_cube as G

ID = "C03"
LEAN_MODULES = ["CatiiProps.C03"]
USES_TRANSLATOR = ["strides"]   # Gen/StridesGen.lean is rewritten from xcube._set_strides / strided_dims (tools/translate_strides.py)
TRUSTED = ["tools/translate_strides.py (numpy.cumprod / flip / append / [1:] / [-1] as list operations; the multiplier of strided_dims is an int64 scalar, so NumPy widens the product; astype wraps modulo 2^bits)"]
RULE = ("dimension lists as C02 (0..4 dims, one/two/three-axis, any commons, inferred or explicit shapes); facts (N,) or "
        "(N,K<=3), float64 NaN-marked / (values, validity) with garbage (incl. NaN) under False / int64 with validity; "
        "weights none / scalar / array / (values, validity), zeros included; both missing-value policies; dense arrays "
        "handed to xcube as int64 and as the unsigned dtype to_array produces. Dyadic stream (k/8 values): every float64 "
        "operation of the real code is exact, compared EXACTLY with the direct Fraction group-by and with the Lean model; "
        "wide stream: 1-2 dims whose extent / product of extents straddles 2^8 (thorough: 2^16), plus the fixed extents (300,), (300,3), (3,300), (257,2), (2,129) on every run; general stream (arbitrary doubles): tolerance 1e-9 x grand total, missing cells exactly; a mean over a cell whose positive weights add up to less than 1e-8 (known finding F03d); cells of exactly 2^16 valid or missing rows (thorough: +-1, 2^17 .. 2^18); every third case hands the same fact / weights objects to every call; every fourth case one long-lived ccube object serves all aggregates while its dimensions are re-normalised in place between them. Non-trivial = >=1 dim and "
        ">=1 row; distinct by (dims, fact, weights, policy, aggregate)")
ASSUMPTIONS = ["float64 sums/products of the dyadic stream are exact (bounded magnitude, N <= 40)",
               "float rounding on the general stream is within 1e-9 of the grand total"]
MODEL_CELL_LIMIT = 150


def slices_1d(dense):
    if dense.ndim == 1:
        return [((), dense)]
    return [(hi, dense[(slice(None),) + hi]) for hi in itertools.product(*[range(e) for e in dense.shape[1:]])]


def compare(ctx, what, got_vals, got_missing, exp, shape, K, tol, desc, cls):
    """exp: {col: {cell: (Fraction|None, missing)}}"""
    for col, cells in exp.items():
        for cell, (val, missing) in cells.items():
            idx = cell if col is None else cell + (col,)
            try:
                gm = bool(got_missing[idx])
                gv = float(got_vals[idx])
            except Exception:
                ctx.oracle_fail("%s: output has no cell %s (shape %s)" % (what, idx, np.shape(got_vals)), desc, cls=cls + "-shape")
                return False
            if gm != missing:
                ctx.oracle_fail("%s: cell %s reported %s but direct computation says %s" % (
                    what, idx, "missing" if gm else "value %r" % gv, "missing" if missing else "value %s" % val), desc, cls=cls)
                return False
            if not missing:
                if tol == 0:
                    ok = Fraction(gv) == val or gv == float(val)   # a mean is the correctly rounded quotient of exact operands
                else:
                    ok = abs(gv - float(val)) <= tol
                if not ok:
                    ctx.oracle_fail("%s: cell %s = %r, direct computation gives %s" % (what, idx, gv, val), desc, cls=cls)
                    return False
    return True


def check(ctx, case, reqs, pend, shape_mode="inferred"):
    from catii import ccube, xcube
    dense, commons, N = case["dense"], case["commons"], case["N"]
    idxs = [G.make_index(d, c) for d, c in zip(dense, commons)]
    multi = any(d.ndim > 1 for d in dense)
    K = case["K"]
    cols = [None] if K is None else list(range(K))
    shape = None
    if dense and shape_mode == "explicit":
        shape = tuple(int(e) + ctx.rng.choice([0, 1]) for e in case["extents"])
    # a long-lived cube: one ccube object serves every aggregate, and between two aggregates one of its dimensions is
    # re-normalised in place (shift_common, as append() does) — it is still the index cube of the same dimensions
    live = bool(case.get("live")) and bool(dense)
    live_cc = ccube(idxs, interacting_shape=shape) if live else None
    for func in A.FUNCS:
        if live and func != A.FUNCS[0]:
            j = ctx.rng.randrange(len(idxs))
            if len(idxs[j].shape) <= 2:
                idxs[j].shift_common(ctx.rng.randrange(0, max(1, int(case["extents"][j]))))
                ctx.hit("live_cube_reencoded")
        desc = A.small_desc(case, {"func": func, "shape": shape})
        if live:
            desc["live_cube"] = True
        ctx.case(desc, nontrivial=bool(dense) and N > 0)
        ctx.hit("func:" + func)
        ctx.hit("weights:" + ("none" if case["weights"] is None else case["weights"][0]))
        ctx.hit("fact:" + case["fact_form"] + ("/cols" if K else ""))
        ctx.hit("k=%d%s" % (len(dense), "m" if multi else ""))
        tol = 0 if not case["general"] else 1e-9 * A.grand_total(case, func)
        ret = ("pair", 0)
        # ---- the real code ---------------------------------------------------
        try:
            cc = live_cc if live else ccube(idxs, interacting_shape=shape)
            cv, cm = A.call(cc, func, case, ret)
        except Exception as e:
            ctx.oracle_fail("ccube.%s raised %s: %s" % (func, type(e).__name__, str(e)[:100]), desc, cls="C03-ccube-raises")
            continue
        ishape = tuple(int(x) for x in cc.interacting_shape)
        xdt = "to_array" if case.get("narrow_inferred") else ctx.rng.choice(["int64", "to_array"])
        try:
            # to_array is defined for one- and two-axis indexes (C01); a three-axis dimension keeps its dense array,
            # cast to the narrow unsigned dtype to_array would have produced
            xdims = [d.astype(np.int64) if xdt == "int64" else
                     (ix.to_array() if d.ndim <= 2 else d.astype(ix.to_array().dtype)) for d, ix in zip(dense, idxs)]
            xshape = ishape if (shape is not None or (ctx.rng.random() < 0.5 and not case.get("narrow_inferred"))) else None
            if N == 0:
                xshape = ishape       # nothing to infer a shape from
            if xshape is None and any(int(d.max(initial=0)) + 1 != s for d, s in zip(dense, ishape)):
                xshape = ishape       # inferred xcube shape is max+1 of the data; align when the common is larger
            xc = xcube(xdims, interacting_shape=xshape)
            xv, xm = A.call(xc, func, case, ret)
        except Exception as e:
            ctx.oracle_fail("xcube.%s raised %s: %s (dims dtype %s)" % (func, type(e).__name__, str(e)[:100], xdt), desc,
                            cls="C03-xcube-raises")
            continue
        ctx.hit("xcube_dims:" + xdt)
        # ---- the oracle: direct per-cell computation ----------------------------
        per_dim = [slices_1d(d) for d in dense]
        for combo in itertools.product(*per_dim):
            js = tuple(e for hi, _ in combo for e in hi)
            cols1d = [c for _, c in combo]
            exp = {col: A.direct_cells(case, "count" if func == "count" else func, cols1d, ishape, col)
                   for col in (cols if func != "count" else [None])}
            if not dense:   # zero dimensions: one cell, wrapped differently by the two cube types
                gcv, gcm = np.asarray(cv).reshape((1,) + np.shape(cv)[0:]) if False else cv, cm
                c_v = np.asarray(cv).reshape(-1) if func == "count" or K is None else np.asarray(cv).reshape(-1, K)
                c_m = np.asarray(cm).reshape(-1) if func == "count" or K is None else np.asarray(cm).reshape(-1, K)
                x_v = np.asarray(xv).reshape(-1) if func == "count" or K is None else np.asarray(xv).reshape(-1, K)
                x_m = np.asarray(xm).reshape(-1) if func == "count" or K is None else np.asarray(xm).reshape(-1, K)
                exp0 = {col: {(0,): list(cells.values())[0]} for col, cells in exp.items()}
                compare(ctx, "ccube.%s" % func, c_v, c_m, exp0, (1,), K, tol, desc, "C03-ccube-wrong")
                compare(ctx, "xcube.%s" % func, x_v, x_m, exp0, (1,), K, tol, desc, "C03-xcube-wrong")
                continue
            try:
                bc_v, bc_m, bx_v, bx_m = cv[js], cm[js], xv[js], xm[js]
            except Exception:
                ctx.oracle_fail("%s: result has no block %s (ccube shape %s, xcube shape %s)" % (
                    func, js, np.shape(cv), np.shape(xv)), desc, cls="C03-shape")
                break
            if not compare(ctx, "ccube.%s block %s" % (func, js), bc_v, bc_m, exp, ishape, K, tol, desc, "C03-ccube-wrong"):
                break
            if not compare(ctx, "xcube.%s block %s" % (func, js), bx_v, bx_m, exp, ishape, K, tol, desc, "C03-xcube-wrong"):
                break
        # ---- the model (one-axis dims, exact stream) ----------------------------
        if multi or not dense or case["general"] or int(np.prod([s + 1 for s in ishape])) > MODEL_CELL_LIMIT:
            continue
        for col in (cols if func != "count" else [None]):
            spec = A.model_spec(case, func, col, ret, tol=True)
            reqs.append(dict(spec, op="agg", kind="ccube", N=N, shape=list(ishape), dims=G.dims_to_model(idxs)))
            gv = cv if col is None else cv[..., col]
            gm = cm if col is None else cm[..., col]
            pend.append((desc, "ccube", func, gv.reshape(-1).tolist(), gm.reshape(-1).tolist()))
            spec2 = A.model_spec(case, func, col, ret, tol=False)
            reqs.append(dict(spec2, op="agg", kind="xcube", N=N, shape=list(ishape),
                             dense=[[int(x) for x in d.tolist()] for d in dense]))
            gv = xv if col is None else xv[..., col]
            gm = xm if col is None else xm[..., col]
            pend.append((desc, "xcube", func, gv.reshape(-1).tolist(), gm.reshape(-1).tolist()))


def big_cells(ctx):
    """cells holding exactly 2^16 (2^17, ...) valid or missing rows, and one row more or less: per-cell row counters
    kept in a narrow integer type wrap to 0 there"""
    from catii import ccube, xcube
    counts = [65536] if ctx.scale == 1 else [65535, 65536, 65537, 131072, 196608, 262144]
    cache = {}
    for c in counts:
        for variant in ("valid", "missing"):
            N = c + 7
            d = np.zeros(N, dtype=np.int64)
            d[:c] = 1
            fv = (np.arange(N) % 5) * 0.5
            fk = np.ones(N, dtype=bool)
            if variant == "missing":
                fk[:c] = False          # category 1: exactly c missing rows ...
                d[c:c + 2] = 1          # ... and two valid ones
            for common in (0, 1):
                for ignore in (False, True):
                    case = dict(dense=[d], commons=[common], N=N, extents=[2], modes=["big"], fact_vals=fv, fact_valid=fk,
                                fact_form="pair", weights=None, ignore=ignore, K=None, general=False)
                    idx = [G.make_index(d, common)]
                    for func in A.FUNCS:
                        desc = {"big_cell_rows": c, "variant": variant, "common": common, "ignore_missing": ignore, "func": func}
                        ctx.case(desc, nontrivial=True)
                        ctx.hit("big_cells")
                        try:
                            cv, cm = A.call(ccube(idx, interacting_shape=(2,)), func, case, ("pair", 0))
                            xv, xm = A.call(xcube([d], interacting_shape=(2,)), func, case, ("pair", 0))
                        except Exception as e:
                            ctx.oracle_fail("%s over a cell of %d rows raised %s: %s" % (func, c, type(e).__name__, str(e)[:80]), desc,
                                            cls="C03-ccube-raises")
                            continue
                        key = (c, variant, ignore, func)
                        if key not in cache:
                            cache[key] = A.direct_cells(case, func, [d], (2,), None)
                        exp = {None: cache[key]}
                        if not compare(ctx, "ccube.%s (cell of %d %s rows)" % (func, c, variant), cv, cm, exp, (2,), None, 0, desc, "C03-ccube-wrong"):
                            continue
                        compare(ctx, "xcube.%s (cell of %d %s rows)" % (func, c, variant), xv, xm, exp, (2,), None, 0, desc, "C03-xcube-wrong")


def tiny_weights(ctx, prefix="C03"):
    """a cell whose valid weights are positive but add up to less than 1e-8 (sampling weights normalised over a huge
    population): it has valid rows and a non-zero weight sum, so its mean is due"""
    from catii import ccube, xcube
    for w0, n_tiny in ((1e-9, 1), (1e-9, 2), (2.0 ** -40, 3), (3e-9, 1)):
        N = n_tiny + 4
        d = np.array([0] * n_tiny + [1] * 4, dtype=np.int64)
        f = np.array([5.0] * n_tiny + [7.0, 7.0, 9.0, 9.0])
        w = np.array([w0] * n_tiny + [1.0, 1.0, 0.5, 0.5])
        for common in (0, 1):
            desc = {"tiny_weight": w0, "rows_in_cell": n_tiny, "common": common, "func": "mean"}
            ctx.case(desc, nontrivial=True)
            ctx.hit("tiny_weights")
            try:
                cv, cm = ccube([G.make_index(d, common)], interacting_shape=(2,)).mean(f, weights=w, return_missing_as=(0, False))
                xv, xm = xcube([d], interacting_shape=(2,)).mean(f, weights=w, return_missing_as=(0, False))
            except Exception as e:
                ctx.oracle_fail("mean with tiny weights raised %s: %s" % (type(e).__name__, str(e)[:80]), desc, cls=prefix + "-ccube-raises")
                continue
            for name, v, m in (("ccube", cv, cm), ("xcube", xv, xm)):
                v, m = np.asarray(v, dtype=float), np.asarray(m, dtype=bool)
                if not m[0]:
                    ctx.oracle_fail("%s.mean: the cell whose %d valid row(s) carry weight %g each (sum %g > 0) is reported missing; "
                                    "the direct computation gives 5.0" % (name, n_tiny, w0, w0 * n_tiny), desc,
                                    cls=prefix + "-mean-tiny-weight-sum" if name == "ccube" else prefix + "-xcube-wrong")
                elif abs(v[0] - 5.0) > 1e-9 or not m[1] or abs(v[1] - 23.0 / 3.0) > 1e-9:
                    ctx.oracle_fail("%s.mean with tiny weights gives %s, direct computation [5.0, 7.666...]" % (name, v.tolist()), desc,
                                    cls="%s-%s-wrong" % (prefix, name))


def run(ctx):
    core.load_catii()
    reqs, pend = [], []
    # exhaustive small level: k<=2, N<=3, extent 2, every common; facts/weights from {0, 1/2, 1, missing}
    n = 0
    for base in G.exhaustive_small(2, 3, 2):
        n += 1
        if ctx.scale == 1 and n % 6 != ctx.seed % 6:
            continue
        N = base["N"]
        fv = np.array([ctx.rng.choice([0.0, 0.5, 1.0]) for _ in range(N)])
        fk = np.array([ctx.rng.random() < 0.7 for _ in range(N)], dtype=bool)
        wk = ctx.rng.choice(["none", "scalar", "array_valid"])
        w = None if wk == "none" else (("scalar", ctx.rng.choice([0.5, 1.0]), True) if wk == "scalar" else
                                       ("array_valid", np.array([ctx.rng.choice([0.0, 0.5, 1.0]) for _ in range(N)]),
                                        np.array([ctx.rng.random() < 0.8 for _ in range(N)], dtype=bool)))
        base.update(fact_vals=fv, fact_valid=fk, fact_form=ctx.rng.choice(["nan", "pair"]), weights=w,
                    ignore=ctx.rng.random() < 0.5, K=None, general=False)
        check(ctx, base, reqs, pend)
    ctx.exhaustive.append("dims: all lists of <=2 one-axis dims, N<=3, values<2, every common (1/6 per seed in quick); "
                          "facts/weights drawn from {0, 1/2, 1, missing}")
    for it in range(ctx.n(60)):
        case = A.gen_case(ctx.rng, multi_axis=ctx.rng.random() < 0.35)
        case["live"] = it % 4 == 1
        if it % 3 == 2:
            case["share_args"] = True      # one fact / weights object handed to every call of the case, both cube types
            ctx.hit("shared_argument_objects")
        check(ctx, case, reqs, pend, shape_mode="explicit" if case["live"] else ctx.rng.choice(["inferred", "explicit"]))
    for _ in range(ctx.n(15)):
        case = A.gen_case(ctx.rng, multi_axis=False, general=True)
        if _ % 3 == 2:
            case = (A.residue_case(ctx.rng) if _ % 2 == 0 else
                    A.gen_case(ctx.rng, k=2, N=ctx.rng.choice([9, 14, 25]), general="residue"))
        ctx.hit("general_stream")
        check(ctx, case, reqs, pend)
    for _ in range(ctx.n(6)):       # whole categories missing (propagating policy)
        case = A.by_category_missing(ctx.rng, A.gen_case(ctx.rng, k=ctx.rng.choice([1, 2, 2, 3]), N=ctx.rng.choice([3, 5, 8, 13])))
        ctx.hit("by_category_missing")
        check(ctx, case, reqs, pend)
    for it in range(ctx.n(3, 48)):   # extents straddling the narrow coordinate types the array cube picks (2^8; thorough: 2^16)
        case = A.gen_case(ctx.rng, wide="u16" if (ctx.tier == "thorough" and it % 8 == 7) else "u8")
        ctx.hit("wide_extents")
        check(ctx, case, reqs, pend)
    # the same, deterministically: a wide dimension first / last / alone, so that every run meets a dimension whose own
    # extent exceeds 2^8 while its stride (the product of the LATER extents) does not, and the other way round
    for ext in ((300,), (300, 3), (3, 300), (257, 2), (2, 129)):
        case = A.gen_case(ctx.rng, wide="u8", wide_extents=ext)
        ctx.hit("wide_extents_fixed")
        check(ctx, case, reqs, pend)
    # the top category equal to the maximum of the narrow dtype the dense array is stored in (255 in uint8; thorough: 65535 in
    # uint16), the array cube left to INFER its shape from such an array
    for ext in (((256,), (256, 3), (2, 256)) if ctx.scale == 1 else ((256,), (256, 3), (2, 256), (65536,), (65536, 2))):
        case = A.gen_case(ctx.rng, wide="u16" if max(ext) > 256 else "u8", wide_extents=ext)
        case["narrow_inferred"] = True
        ctx.hit("top_category_at_dtype_max")
        check(ctx, case, reqs, pend, shape_mode="inferred")
    # cubes WITHOUT dimensions (one cell holding every row; the fill routines take their own branch there), on every run:
    # every weight form with weights that are not all 1, facts with and without a missing row, both policies
    for rep in range(12):
        case = A.gen_case(ctx.rng, k=0, N=(3, 6, 1)[rep % 3])
        n = case["N"]
        wv = np.array([[0.5, 2.0, 3.5, 1.0, 0.125, 2.0][i % 6] for i in range(n)])
        wok = np.ones(n, dtype=bool)
        if rep % 4 == 3 and n > 1:
            wok[n - 1] = False
        case["weights"] = [("array", wv, np.ones(n, dtype=bool)), ("scalar", 2.5, True), ("array_valid", wv, wok), None][rep % 4]
        if rep % 2 == 0:
            case["fact_valid"] = np.ones_like(case["fact_valid"])
        case["ignore"] = rep % 3 == 0
        ctx.hit("no_dimensions")
        check(ctx, case, reqs, pend)
    big_cells(ctx)
    tiny_weights(ctx)
    if ctx.oracle_only:
        return
    for (desc, kind, func, gv, gm), m in zip(pend, ctx.model.run(reqs)):
        if "cells" not in m:
            ctx.corr_fail("%s.%s: model %s" % (kind, func, m), desc)
            continue
        for i, cell in enumerate(m["cells"]):
            if bool(gm[i]) != cell["missing"]:
                ctx.corr_fail("%s.%s cell #%d: impl missing=%s model missing=%s" % (kind, func, i, gm[i], cell["missing"]), desc)
                break
            if not cell["missing"] and float(gv[i]) != float(Fraction(cell["value"][0], cell["value"][1])):
                ctx.corr_fail("%s.%s cell #%d: impl %r model %s/%s" % (kind, func, i, gv[i], cell["value"][0], cell["value"][1]), desc)
                break


def replay(ctx, rep):
    return True
