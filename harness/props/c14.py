"""C14 — walk presents exactly the non-empty uncommon and marginal intersections."""
import itertools

import numpy as np

import core
import gen_cube as G

ID = "C14"
LEAN_MODULES = ["CatiiProps.C14"]
USES_TRANSLATOR = ['walk', 'kernels']   # Gen/WalkGen.lean is rewritten from the current ccube._walk (tools/translate_walk.py)
TRUSTED = ["tools/translate_walk.py (ccube._walk -> the sequence of callback invocations; the diagnostic counter intersection_data_points is skipped; set_intersect_merge_np is the list merge Kern.inter, which C08 ties to the kernel)"]
RULE = ("exhaustive: every list of 1..3 one-axis dims over N<=3 rows, values < 2, every common; random: 1..4 dims, N<=40, "
        "extents 1..5, commons frequent/rare/absent; the same with explicit entries that list no row added to the dimensions; every third random cube is walked with a callback that itself walks the cube again at one of its calls; every third is walked again after 1-3 in-place changes of its dimensions (update of a cell, shift_common(v)). Observed: ccube(dims).interactions() as a multiset of (coords, row ids). "
        "Non-trivial = at least one item delivered; distinct by (dense columns, commons)")
ASSUMPTIONS = ["dict iteration order is not part of the property: deliveries are compared as multisets"]


def spec_items(dense, idxs):
    """the property's own oracle, from the dense columns"""
    N = len(dense[0]) if dense else 0
    opts = []
    for d, ix in zip(dense, idxs):
        unc = sorted({int(v) for v in d.tolist()} - {int(ix.common)})
        opts.append(unc + [-1])
    out = []
    for co in itertools.product(*opts):
        if all(c == -1 for c in co):
            continue
        rows = [r for r in range(N) if all(c == -1 or int(d[r]) == c for c, d in zip(co, dense))]
        if rows:
            out.append([list(co), rows])
    return sorted(out)


def with_empties(idxs, empties):
    """the same dimensions with explicit entries that list no row (a caller may leave `idx[key] = rowids[keep]` with
    nothing kept; `validate()` accepts it): `empties[d]` = [[value, position among the entries], ...]"""
    from catii import iindex
    out = []
    for ix, emp in zip(idxs, empties):
        items = list(dict.items(ix))
        for v, pos in emp:
            if (v,) not in dict(items) and v != ix.common:
                items.insert(min(pos, len(items)), ((int(v),), np.array([], dtype=np.uint32)))
        out.append(iindex(dict(items), ix.common, ix.shape))
    return out


def gen_empties(rng, case):
    emp = []
    for d in case["dense"]:
        ext = int(max(d.tolist() + [0])) + 2
        emp.append([[rng.randrange(0, ext + 1), rng.randrange(0, 4)] for _ in range(rng.choice([0, 1, 1, 2]))])
    return emp


def observe(cube):
    items = cube.interactions()
    out = []
    for co, rows in items:
        out.append([[int(c) for c in co], [int(x) for x in np.asarray(rows).tolist()]])
    return out


def observe_reentrant(cube, at):
    """walk with a callback of our own that, on its `at`-th call, walks the same cube again (a custom aggregate that
    looks something up through the cube): returns what the outer callback and the nested walk received"""
    outer, inner, calls = [], [], [0]

    def cb(co, rows):
        outer.append([[int(c) for c in co], [int(x) for x in np.asarray(rows).tolist()]])
        calls[0] += 1
        if calls[0] == at:
            inner.extend(observe(cube))

    cube.walk(cb)
    return outer, inner


def check(ctx, case, reqs, pend):
    from catii import ccube
    dense, commons = case["dense"], case["commons"]
    if not dense:
        return
    idxs = [G.make_index(d, c) for d, c in zip(dense, commons)]
    desc = {"dense": [d.tolist() for d in dense], "commons": commons}
    if case.get("empties"):
        idxs = with_empties(idxs, case["empties"])
        desc["empties"] = case["empties"]
        ctx.hit("explicit_empty_entries")
    if case.get("strided"):
        # the same entries as non-contiguous uint32 views (every 2nd word of a buffer whose other words are row ids of the
        # next entry, or the reverse of a descending buffer): iindex stores such views as they are
        import numpy as np
        for ix in idxs:
            keys = list(dict.keys(ix))
            for j, k in enumerate(keys):
                rows = np.asarray(dict.__getitem__(ix, k))
                other = np.asarray(dict.__getitem__(ix, keys[(j + 1) % len(keys)]))
                fill = other if len(other) else np.array([7], dtype=np.uint32)
                if case["strided"] == "backwards":
                    buf = np.concatenate([fill[:1], rows[::-1], fill[:1]]).astype(np.uint32)
                    view = buf[1:1 + len(rows)][::-1]
                else:
                    buf = np.resize(fill, 2 * len(rows) + 2).astype(np.uint32)
                    buf[0:2 * len(rows):2] = rows
                    view = buf[0:2 * len(rows):2]
                assert view.tolist() == rows.tolist()
                dict.__setitem__(ix, k, view)
        desc["entry_arrays"] = case["strided"]
        ctx.hit("entries_as_views:" + case["strided"])
    try:
        got = observe(ccube(idxs))
    except Exception as e:
        ctx.case(desc)
        ctx.oracle_fail("interactions() raised %s: %s" % (type(e).__name__, e), desc, cls="C14-raises")
        return
    ctx.case(desc if len(str(desc)) < 500 else {"k": len(dense), "N": case["N"], "commons": commons},
             nontrivial=bool(got))
    ctx.hit("k=%d" % len(dense))
    for m in case["modes"]:
        ctx.hit("common:" + m)
    exp = spec_items(dense, idxs)
    if sorted(got) != exp:
        dup = len(got) != len({str(g[0]) for g in got})
        extra = [g for g in got if g not in exp]
        miss = [e for e in exp if e not in got]
        ctx.oracle_fail("walk delivered a different multiset: %s%d extra %s, %d missing %s" % (
            "duplicate coordinates; " if dup else "", len(extra), str(extra[:2]), len(miss), str(miss[:2])), desc,
            cls="C14-wrong-deliveries")
    reqs.append({"op": "walk", "dims": G.dims_to_model(idxs)})
    pend.append((desc, got))
    if exp and case.get("reenter"):
        at = 1 + ctx.rng.randrange(len(exp))
        try:
            outer, inner = observe_reentrant(ccube(idxs), at)
        except Exception as e:
            ctx.oracle_fail("walk with a callback that walks the cube again raised %s: %s" % (type(e).__name__, str(e)[:80]), desc, cls="C14-raises")
            outer = inner = None
        if outer is not None:
            ctx.hit("reentrant_walk")
            ctx.evaluations += 1
            if sorted(outer) != exp or sorted(inner) != exp:
                which = "outer" if sorted(outer) != exp else "nested"
                bad = outer if which == "outer" else inner
                ctx.oracle_fail("a callback walked the same cube again at its call #%d: the %s walk delivered %d pairs, %d expected "
                                "(%d not in the specification)" % (at, which, len(bad), len(exp), len([g for g in bad if g not in exp])),
                                dict(desc, reenter_at=at), cls="C14-wrong-deliveries")
    if case.get("live") and all(d.ndim == 1 for d in dense) and len(dense[0]) > 0:
        live_walk(ctx, case, idxs)


def live_walk(ctx, case, idxs):
    """ONE cube object walked, one of its dimensions changed in place (cells re-assigned with update(), or the common
    value moved with shift_common(v)), and the same cube walked again: it presents the combinations of its dimensions
    as they are now"""
    from catii import ccube
    dense = [d.copy() for d in case["dense"]]
    cube = ccube(idxs)
    hist = []
    try:
        observe(cube)
        for _step in range(ctx.rng.randrange(1, 4)):
            j = ctx.rng.randrange(len(idxs))
            if ctx.rng.random() < 0.6:
                present = sorted(set(int(v) for v in dense[j].tolist()) | {int(idxs[j].common)})
                r = ctx.rng.randrange(len(dense[j]))
                v = ctx.rng.choice(present + [max(present) + 1])
                idxs[j].update({(int(v),): np.array([r], dtype=np.uint32)})
                dense[j][r] = v
                hist.append(["update", j, int(v), int(r)])
            else:
                v = ctx.rng.choice(sorted(set(int(x) for x in dense[j].tolist())) + [int(idxs[j].common)])
                idxs[j].shift_common(int(v))
                hist.append(["shift_common", j, int(v)])
            got = observe(cube)
            desc = {"dense": [d.tolist() for d in case["dense"]], "commons": case["commons"], "live_cube_then": hist}
            ctx.case(desc, nontrivial=True)
            ctx.hit("live_cube_walked_again")
            exp = spec_items(dense, idxs)
            if sorted(got) != exp:
                extra = [g for g in got if g not in exp]
                miss = [e for e in exp if e not in got]
                ctx.oracle_fail("a cube walked again after %s delivered a different multiset: %d extra %s, %d missing %s" % (
                    hist[-1], len(extra), str(extra[:2]), len(miss), str(miss[:2])), desc, cls="C14-wrong-deliveries")
                return
    except Exception as e:
        ctx.oracle_fail("walking a cube again after %s raised %s: %s" % (hist, type(e).__name__, str(e)[:80]),
                        {"dense": [d.tolist() for d in case["dense"]], "commons": case["commons"], "live_cube_then": hist}, cls="C14-raises")


def huge_frames(ctx):
    """frames of 2^32 - 1 rows of which only a few are uncommon: the row ids presented sit at both ends of the uint32 range and
    on either side of 2^31 (an index stores only its uncommon rows, so such a cube is tiny).  Oracle: the property's own
    statement on the row-id sets."""
    from catii import ccube, iindex
    N = 2 ** 32 - 1
    pool = [0, 1, 5, 2 ** 31 - 2, 2 ** 31 - 1, 2 ** 31, 2 ** 31 + 3, 2 ** 32 - 7, 2 ** 32 - 2]
    for rep in range(ctx.n(12)):
        k = ctx.rng.choice([2, 2, 3])
        dims = []
        for _ in range(k):
            rows = sorted(ctx.rng.sample(pool, ctx.rng.randrange(3, len(pool) + 1)))
            cut = ctx.rng.randrange(1, len(rows))
            ent = {1: rows[:cut], 2: rows[cut:]}
            if ctx.rng.random() < 0.5:
                ent = {2: ent[2], 1: ent[1]}
            dims.append(ent)
        idxs = [iindex({(v,): np.array(r, dtype=np.uint32) for v, r in ent.items()}, 0, (N,)) for ent in dims]
        desc = {"rows": N, "dims": [{str(v): r for v, r in ent.items()} for ent in dims]}
        ctx.case(desc, nontrivial=True)
        ctx.hit("huge_frame")
        exp = []
        for co in itertools.product(*[[1, 2, -1]] * k):
            if all(c == -1 for c in co):
                continue
            sets = [set(ent[c]) for c, ent in zip(co, dims) if c != -1]
            rows = sorted(set.intersection(*sets))
            if rows:
                exp.append([list(co), rows])
        try:
            got = observe(ccube(idxs))
        except Exception as e:
            ctx.oracle_fail("interactions() on a frame of 2^32-1 rows raised %s: %s" % (type(e).__name__, str(e)[:80]), desc, cls="C14-raises")
            continue
        if sorted(got) != sorted(exp):
            extra = [g for g in got if g not in exp]
            miss = [e for e in exp if e not in got]
            ctx.oracle_fail("walk over a frame of 2^32-1 rows delivered a different multiset: %d extra %s, %d missing %s" % (
                len(extra), str(extra[:2]), len(miss), str(miss[:2])), desc, cls="C14-wrong-deliveries")


def run(ctx):
    core.load_catii()
    reqs, pend = [], []
    huge_frames(ctx)
    for case in G.exhaustive_small(3, 3, 2):
        check(ctx, case, reqs, pend)
    ctx.exhaustive.append("all lists of 1..3 one-axis dims, N<=3, values<2, every common")
    for it in range(ctx.n(300)):
        case = G.gen_dims(ctx.rng)
        if case["dense"]:
            case["live"] = it % 3 == 0
            case["reenter"] = it % 3 == 1
            if it % 3 == 2 and it % 2 == 0:
                case["strided"] = "stride2" if it % 4 == 0 else "backwards"
            check(ctx, case, reqs, pend)
    # dimensions carrying explicit entries that list no row: they match no row, so nothing is presented for them
    for case in G.exhaustive_small(2, 2, 2):
        if case["dense"]:
            for v in (0, 1, 2):
                check(ctx, dict(case, empties=[[[v, j]] for j in range(len(case["dense"]))]), reqs, pend)
    for _ in range(ctx.n(120)):
        case = G.gen_dims(ctx.rng)
        if case["dense"]:
            check(ctx, dict(case, empties=gen_empties(ctx.rng, case)), reqs, pend)
    if ctx.oracle_only:
        return
    for (desc, got), m in zip(pend, ctx.model.run(reqs)):
        mm = sorted([[(-1 if c is None else c) for c in co], rows] for co, rows in m)
        if sorted(got) != mm:
            ctx.corr_fail("interactions differ: impl %s model %s" % (str(sorted(got))[:200], str(mm)[:200]), desc)
    # the walk REGENERATED from the current ccube._walk (tools/translate_walk.py), on the same dimensions
    try:
        gans = ctx.model.run([{"dims": r["dims"]} for r in reqs], driver="Driver/WalkGen.lean")
    except core.ModelBroken as e:
        ctx.corr_fail("the walk regenerated from ccube._walk does not build/run: %s" % str(e)[-400:], {"translator": True})
        return
    ctx.hit("generated_model_requests", len(reqs))
    for (desc, got), m in zip(pend, gans):
        if not isinstance(m, list):
            ctx.corr_fail("generated walk: %s" % str(m)[:200], desc)
            continue
        mm = sorted([[(-1 if c is None else c) for c in co], rows] for co, rows in m)
        if sorted(got) != mm:
            ctx.corr_fail("interactions differ: impl %s, walk regenerated from the source %s" % (str(sorted(got))[:200], str(mm)[:200]), desc)


def replay(ctx, rep):
    core.load_catii()
    from catii import ccube
    c = rep["case"]
    if "rows" in c and "dims" in c:
        from catii import iindex
        dims = [{int(v): r for v, r in ent.items()} for ent in c["dims"]]
        idxs = [iindex({(v,): np.array(r, dtype=np.uint32) for v, r in ent.items()}, 0, (c["rows"],)) for ent in dims]
        exp = []
        for co in itertools.product(*[[1, 2, -1]] * len(dims)):
            if all(x == -1 for x in co):
                continue
            rows = sorted(set.intersection(*[set(ent[x]) for x, ent in zip(co, dims) if x != -1]))
            if rows:
                exp.append([list(co), rows])
        return sorted(observe(ccube(idxs))) == sorted(exp)
    dense = [np.array(d, dtype=np.int64) for d in c["dense"]]
    idxs = [G.make_index(d, cm) for d, cm in zip(dense, c["commons"])]
    if c.get("entry_arrays"):
        return True   # re-run the check: the view construction lives in check()
    if c.get("empties"):
        idxs = with_empties(idxs, c["empties"])
    return sorted(observe(ccube(idxs))) == spec_items(dense, idxs)
