"""C14 — walk presents exactly the non-empty uncommon and marginal intersections."""
import itertools

import numpy as np

import core
import gen_cube as G

ID = "C14"
LEAN_MODULES = ["CatiiProps.C14"]
RULE = ("exhaustive: every list of 1..3 one-axis dims over N<=3 rows, values < 2, every common; random: 1..4 dims, N<=40, "
        "extents 1..5, commons frequent/rare/absent. Observed: ccube(dims).interactions() as a multiset of (coords, row ids). "
        "Non-trivial = at least one item delivered; distinct by (dense columns, commons)")
ASSUMPTIONS = ["dict iteration order is not part of the property: deliveries are compared as multisets"]


def spec_items(dense, idxs):
    """the property's own oracle, from the dense columns"""
    N = len(dense[0]) if dense else 0
    opts = []
    for d, ix in zip(dense, idxs):
        unc = sorted({int(v) for v in d.tolist()} - {int(ix.common)})
        opts.append(unc + [-1])
    out = []
    for co in itertools.product(*opts):
        if all(c == -1 for c in co):
            continue
        rows = [r for r in range(N) if all(c == -1 or int(d[r]) == c for c, d in zip(co, dense))]
        if rows:
            out.append([list(co), rows])
    return sorted(out)


def observe(cube):
    items = cube.interactions()
    out = []
    for co, rows in items:
        out.append([[int(c) for c in co], [int(x) for x in np.asarray(rows).tolist()]])
    return out


def check(ctx, case, reqs, pend):
    from catii import ccube
    dense, commons = case["dense"], case["commons"]
    if not dense:
        return
    idxs = [G.make_index(d, c) for d, c in zip(dense, commons)]
    desc = {"dense": [d.tolist() for d in dense], "commons": commons}
    try:
        got = observe(ccube(idxs))
    except Exception as e:
        ctx.case(desc)
        ctx.oracle_fail("interactions() raised %s: %s" % (type(e).__name__, e), desc, cls="C14-raises")
        return
    ctx.case(desc if len(str(desc)) < 500 else {"k": len(dense), "N": case["N"], "commons": commons},
             nontrivial=bool(got))
    ctx.hit("k=%d" % len(dense))
    for m in case["modes"]:
        ctx.hit("common:" + m)
    exp = spec_items(dense, idxs)
    if sorted(got) != exp:
        dup = len(got) != len({str(g[0]) for g in got})
        extra = [g for g in got if g not in exp]
        miss = [e for e in exp if e not in got]
        ctx.oracle_fail("walk delivered a different multiset: %s%d extra %s, %d missing %s" % (
            "duplicate coordinates; " if dup else "", len(extra), str(extra[:2]), len(miss), str(miss[:2])), desc,
            cls="C14-wrong-deliveries")
    reqs.append({"op": "walk", "dims": G.dims_to_model(idxs)})
    pend.append((desc, got))


def run(ctx):
    core.load_catii()
    reqs, pend = [], []
    for case in G.exhaustive_small(3, 3, 2):
        check(ctx, case, reqs, pend)
    ctx.exhaustive.append("all lists of 1..3 one-axis dims, N<=3, values<2, every common")
    for _ in range(ctx.n(300)):
        case = G.gen_dims(ctx.rng)
        if case["dense"]:
            check(ctx, case, reqs, pend)
    if ctx.oracle_only:
        return
    for (desc, got), m in zip(pend, ctx.model.run(reqs)):
        mm = sorted([[(-1 if c is None else c) for c in co], rows] for co, rows in m)
        if sorted(got) != mm:
            ctx.corr_fail("interactions differ: impl %s model %s" % (str(sorted(got))[:200], str(mm)[:200]), desc)


def replay(ctx, rep):
    core.load_catii()
    from catii import ccube
    c = rep["case"]
    dense = [np.array(d, dtype=np.int64) for d in c["dense"]]
    idxs = [G.make_index(d, cm) for d, cm in zip(dense, c["commons"])]
    return sorted(observe(ccube(idxs))) == spec_items(dense, idxs)
