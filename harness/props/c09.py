"""C09 — memory safety of the kernels: model's checked accesses <-> bounds-checked twin of the current .pyx
(and an AddressSanitizer build of the unmodified .pyx in the thorough tier)."""
import os
import subprocess
import sys

import numpy as np

import core
import gen_kern as G

ID = "C09"
LEAN_MODULES = ["CatiiProps.C09"]
RULE = ("same exhaustive spaces as C08 (every empty/non-empty combination and exhaustion order up to 6/8 elements) plus "
        "random pairs over eleven overlap patterns (incl. lengths 1-4 against 65-5000), unsorted and duplicate-carrying random arrays; each case runs the bounds-checked twin (IndexError per "
        "out-of-range source-level access) and the model (Err per checked access); non-trivial = at least one operand "
        "non-empty; distinct by input")
ASSUMPTIONS = ["Cython lowers each source-level index expression to one access of that element; gcc preserves it",
               "the twin differs from the shipped kernel only in @cython.boundscheck(True)"]
TRUSTED = ["tools/buildext.py variants `checked` and `asan`"]

FN2 = {"inter": "set_intersect_merge_np", "union": "set_union_merge_np", "diff": "set_difference_merge_np"}


def u32(xs):
    return np.array(xs, dtype=np.uint32)


def twin(ck, fn, a, b):
    try:
        r = getattr(ck, FN2[fn])(u32(a), u32(b))
        return ("ok", [int(x) for x in np.asarray(r).tolist()])
    except IndexError as e:
        return ("oob", str(e))
    except Exception as e:
        return ("raise", type(e).__name__)


def run(ctx):
    ck = core.load_kernels("checked")
    reqs, pend = [], []

    def one(fn, a, b):
        got = twin(ck, fn, a, b)
        case = {"fn": fn, "l": a, "r": b}
        ctx.case(case if len(str(case)) < 300 else {"fn": fn, "len_l": len(a), "len_r": len(b)},
                 nontrivial=bool(a) or bool(b))
        ctx.hit("fn:" + fn)
        ctx.hit("empties:%d%d" % (int(not a), int(not b)))
        if got[0] == "oob":
            ctx.oracle_fail("%s(%s, %s): bounds-checked twin raised IndexError (%s) — the shipped kernel reads/writes "
                            "outside its buffers here" % (FN2[fn], str(a)[:80], str(b)[:80], got[1]), case,
                            cls="C09-oob-intersect-one-empty" if (fn == "inter" and (not a) != (not b)) else "C09-oob")
        elif got[0] == "raise":
            ctx.oracle_fail("%s raised %s" % (FN2[fn], got[1]), case, cls="C09-raises")
        reqs.append({"op": "kern", "fn": fn, "l": a, "r": b})
        pend.append((case, got))

    n_u = 6 if ctx.tier == "quick" and ctx.scale == 1 else 8
    subs = list(G.subsets(G.universe(n_u)))
    for a in subs:
        for b in subs:
            for fn in FN2:
                one(fn, a, b)
    ctx.exhaustive.append("all %d^2 ordered pairs of subsets of %s x 3 kernels on the bounds-checked twin" % (
        len(subs), G.universe(n_u)))
    for _ in range(ctx.n(300)):
        kind, a, b = G.random_pair(ctx.rng, maxlen=ctx.rng.choice([8, 60, 300]))
        ctx.hit("pattern:" + kind)
        for fn in FN2:
            one(fn, a, b)
    # unsorted / duplicate inputs: outside C08's precondition but inside C09's theorem
    for _ in range(ctx.n(300)):
        a = [ctx.rng.randrange(0, 12) for _ in range(ctx.rng.randrange(0, 9))]
        b = [ctx.rng.randrange(0, 12) for _ in range(ctx.rng.randrange(0, 9))]
        ctx.hit("unsorted")
        for fn in FN2:
            one(fn, a, b)
    if ctx.tier == "thorough":
        asan(ctx, subs)
    if ctx.oracle_only:
        return
    ans = ctx.model.run(reqs)
    for (case, got), m in zip(pend, ans):
        if got[0] == "oob":
            same = m.get("err") in ("oobRead", "oobWrite")
        elif got[0] == "ok":
            same = m.get("ok") == got[1]
        else:
            same = False
        if not same:
            ctx.corr_fail("twin %s vs model %s" % (str(got)[:200], str(m)[:200]), case)


ASAN_SCRIPT = r'''
import sys, json, importlib.util, numpy as np
spec = importlib.util.spec_from_file_location("asan_pkg.set_operations", sys.argv[1])
m = importlib.util.module_from_spec(spec); spec.loader.exec_module(m)
u = lambda xs: np.array(xs, dtype=np.uint32)
n = 0
for line in sys.stdin:
    fn, a, b = json.loads(line)
    sys.stderr.write("CASE %s\n" % line.strip()); sys.stderr.flush()
    getattr(m, fn)(u(a), u(b)); n += 1
print("DONE", n)
'''


def asan(ctx, subs):
    """unmodified .pyx under AddressSanitizer: any heap-buffer-overflow report is a violation"""
    import json
    import buildext
    so = buildext.build("asan")
    lib = subprocess.run(["gcc", "-print-file-name=libasan.so"], capture_output=True, text=True).stdout.strip()
    lines = []
    small = [s for s in subs if len(s) <= 3]
    for a in small:
        for b in small:
            for fn in FN2.values():
                lines.append(json.dumps([fn, a, b]))
    env = dict(os.environ, LD_PRELOAD=lib, ASAN_OPTIONS="detect_leaks=0:halt_on_error=1")
    try:
        p = subprocess.run([core.PY, "-c", ASAN_SCRIPT, so], input="\n".join(lines) + "\n", capture_output=True,
                           text=True, env=env, timeout=900)
    except subprocess.TimeoutExpired:
        raise core.Infra("ASan run timed out")
    ctx.hit("asan_cases", len(lines))
    if "AddressSanitizer" in p.stderr:
        last = [l for l in p.stderr.split("\n") if l.startswith("CASE ")][-1][5:]
        fn, a, b = json.loads(last)
        rep = p.stderr[p.stderr.index("AddressSanitizer") - 10:][:600]
        short = {v: k for k, v in FN2.items()}[fn]
        ctx.oracle_fail("AddressSanitizer report in %s(%s, %s): %s" % (fn, a, b, rep), {"fn": short, "l": a, "r": b},
                        cls="C09-oob-intersect-one-empty" if (short == "inter" and (not a) != (not b)) else "C09-oob")
    elif "DONE" not in p.stdout:
        raise core.Infra("ASan run failed: " + p.stderr[-500:])
    ctx.exhaustive.append("ASan build of the unmodified .pyx: %d kernel calls, no report" % len(lines))


def replay(ctx, rep):
    ck = core.load_kernels("checked")
    c = rep["case"]
    return twin(ck, c["fn"], c["l"], c["r"])[0] == "ok"
