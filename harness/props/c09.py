"""C09 — memory safety of the kernels: model's checked accesses <-> bounds-checked twin of the current .pyx
(and an AddressSanitizer build of the unmodified .pyx in the thorough tier)."""
import os
import subprocess
import sys

import numpy as np

import core
import gen_kern as G

ID = "C09"
LEAN_MODULES = ["CatiiProps.C09"]
USES_TRANSLATOR = ['kernels']   # Gen/KernelsGen.lean is rewritten from the current set_operations.pyx (tools/translate_pyx.py)
RULE = ("same exhaustive spaces as C08 (every empty/non-empty combination and exhaustion order up to 6/8 elements; the k-way union over all lists of <=3 subsets of [0, 3, 2^32-1]) plus "
        "operands sharing 65537 .. 70000 row ids (twin only); random pairs over eleven overlap patterns (incl. lengths 1-4 against 65-5000; contiguous, embedded, strided and backwards views of buffers whose other words belong to neither operand, a stray word in the result being a read outside the inputs), unsorted and duplicate-carrying random arrays; each case runs the bounds-checked twin (IndexError per "
        "out-of-range source-level access) and the model (Err per checked access); non-trivial = at least one operand "
        "non-empty; distinct by input")
ASSUMPTIONS = ["Cython lowers each source-level index expression to one access of that element; gcc preserves it",
               "the twin differs from the shipped kernel only in @cython.boundscheck(True)"]
TRUSTED = ["tools/buildext.py variants `checked` and `asan`",
           "tools/translate_pyx.py (Cython subset -> Lean: every a[i] a checked read, every v[i] = e a checked write, integer "
           "subtraction checked against going below zero; loops as recursive functions)"]

FN2 = {"inter": "set_intersect_merge_np", "union": "set_union_merge_np", "diff": "set_difference_merge_np"}


def u32(xs):
    return np.array(xs, dtype=np.uint32)


def tainted_view(xs, members, mode):
    """xs as a non-contiguous (or embedded) view of a buffer whose other words are values that belong to neither
    operand: if one of them shows up in the result, the kernel has read a word outside its input arrays"""
    fill = []
    v = 0xA5A50000
    k = {"embedded": 1, "stride2": 2, "stride3": 3, "backwards": 1}[mode]
    need = len(xs) * k + 2 * k + 2
    while len(fill) < need:
        if v not in members:
            fill.append(v)
        v += 1
    buf = u32(fill)
    if mode == "backwards":
        buf[2:2 + len(xs)] = list(reversed(xs))
        return buf[2:2 + len(xs)][::-1]
    buf[k:k + len(xs) * k:k] = xs
    return buf[k:k + len(xs) * k:k]


def twin(ck, fn, a, b, view=None):
    try:
        if view:
            mem = set(a) | set(b)
            A, B = tainted_view(a, mem, view), tainted_view(b, mem, view)
        else:
            A, B = u32(a), u32(b)
        r = getattr(ck, FN2[fn])(A, B)
        return ("ok", [int(x) for x in np.asarray(r).tolist()])
    except IndexError as e:
        return ("oob", str(e))
    except Exception as e:
        return ("raise", type(e).__name__)


def run(ctx):
    ck = core.load_kernels("checked")
    reqs, pend = [], []

    def one(fn, a, b, view=None):
        got = twin(ck, fn, a, b, view)
        case = {"fn": fn, "l": a, "r": b}
        if view:
            case["view"] = view
            ctx.hit("view:" + view)
            if got[0] == "ok":
                stray = [x for x in got[1] if x not in set(a) | set(b)]
                if stray:
                    ctx.oracle_fail("%s on %s views of %s, %s returned %s: %s is an element of neither operand but a word "
                                    "of the buffer around them — the kernel read outside its input arrays" % (
                                        FN2[fn], view, str(a)[:80], str(b)[:80], str(got[1])[:80], stray[:3]), case,
                                    cls="C09-read-outside-operand")
        ctx.case(case if len(str(case)) < 300 else {"fn": fn, "len_l": len(a), "len_r": len(b)},
                 nontrivial=bool(a) or bool(b))
        ctx.hit("fn:" + fn)
        ctx.hit("empties:%d%d" % (int(not a), int(not b)))
        if got[0] == "oob":
            ctx.oracle_fail("%s(%s, %s): bounds-checked twin raised IndexError (%s) — the shipped kernel reads/writes "
                            "outside its buffers here" % (FN2[fn], str(a)[:80], str(b)[:80], got[1]), case,
                            cls="C09-oob-intersect-one-empty" if (fn == "inter" and (not a) != (not b)) else "C09-oob")
        elif got[0] == "raise":
            ctx.oracle_fail("%s raised %s" % (FN2[fn], got[1]), case, cls="C09-raises")
        reqs.append({"op": "kern", "fn": fn, "l": a, "r": b})
        pend.append((case, got))

    n_u = 6 if ctx.tier == "quick" and ctx.scale == 1 else 8
    subs = list(G.subsets(G.universe(n_u)))
    for a in subs:
        for b in subs:
            for fn in FN2:
                one(fn, a, b)
    ctx.exhaustive.append("all %d^2 ordered pairs of subsets of %s x 3 kernels on the bounds-checked twin" % (
        len(subs), G.universe(n_u)))
    # the same small operands as views of larger buffers (embedded, strided, backwards) whose other words belong to
    # neither operand: a word of the buffer in the result is a read outside the input arrays
    sub5 = list(G.subsets(G.universe(5)))
    for view in ("stride2", "backwards", "embedded"):
        for a in sub5:
            for b in sub5:
                for fn in FN2:
                    one(fn, a, b, view)
    ctx.exhaustive.append("all %d^2 ordered pairs of subsets of %s x 3 kernels as stride-2 / backwards / embedded views of "
                          "buffers whose other words belong to neither operand" % (len(sub5), G.universe(5)))
    for _ in range(ctx.n(300)):
        kind, a, b = G.random_pair(ctx.rng, maxlen=ctx.rng.choice([8, 60, 300]))
        ctx.hit("pattern:" + kind)
        view = ctx.rng.choice([None, "embedded", "stride2", "stride3", "backwards"])
        for fn in FN2:
            one(fn, a, b, view)
    # the k-way union kernel on the bounds-checked twin: all lists of <= 3 subsets of [0, 3, 2^32-1], then random lists
    import itertools
    uni3 = list(G.subsets([0, 3, G.U32]))
    lists = [[list(a) for a in arrays] for k in range(0, 4) for arrays in itertools.product(uni3, repeat=k)]
    for _ in range(ctx.n(60)):
        lists.append([G.random_sorted(ctx.rng, ctx.rng.randrange(0, 30), 0, ctx.rng.choice([30, 1000, G.U32]))
                      for _k in range(ctx.rng.randrange(0, 6))])
    for arrays in lists:
        case = {"fn": "union_many", "arrays": arrays}
        ctx.case(case if len(str(case)) < 300 else {"fn": "union_many", "lens": [len(a) for a in arrays]},
                 nontrivial=any(arrays))
        ctx.hit("fn:union_many")
        try:
            r = ck.set_union_merge_many([u32(a) for a in arrays])
            got = ("ok", [int(x) for x in np.asarray(r).tolist()])
            if got[1] != sorted(set().union(*[set(a) for a in arrays])) if arrays else got[1] != []:
                ctx.oracle_fail("set_union_merge_many(%s) on the bounds-checked twin returned %s" % (str(arrays)[:120], str(got[1])[:80]),
                                case, cls="C09-many-wrong")
        except IndexError as e:
            got = ("oob", str(e))
            ctx.oracle_fail("set_union_merge_many(%s): bounds-checked twin raised IndexError (%s) — the shipped kernel reads/writes "
                            "outside its buffers here" % (str(arrays)[:120], e), case, cls="C09-oob")
        except Exception as e:
            got = ("raise", type(e).__name__)
            ctx.oracle_fail("set_union_merge_many raised %s" % type(e).__name__, case, cls="C09-raises")
        reqs.append({"op": "kern", "fn": "union_many", "arrays": arrays})     # the model's checked index loop
        pend.append((case, got))
    ctx.exhaustive.append("k-way union on the twin: all lists of 0..3 subsets of [0, 3, 2^32-1]")
    # operands sharing more than 2^16 row ids (any output buffer that is grown or sized in 2^16 steps is crossed):
    # bounds-checked twin only - the model is not asked to walk 10^5 elements
    for na, nb, step_b in ((70000, 70000, 1), (100000, 140000, 2), (65537, 65537, 1)):
        a = np.arange(0, na, dtype=np.uint32)
        b = np.arange(0, nb * step_b, step_b, dtype=np.uint32)[:nb]
        for fn in FN2:
            case = {"fn": fn, "big": [na, nb, step_b]}
            ctx.case(case, nontrivial=True)
            ctx.hit("big_operands")
            try:
                r = np.asarray(getattr(ck, FN2[fn])(a, b))
                want = {"inter": np.intersect1d, "union": np.union1d, "diff": np.setdiff1d}[fn](a, b)
                if not np.array_equal(r, want):
                    ctx.oracle_fail("%s on operands of %d and %d row ids (bounds-checked twin) returned a wrong result (first "
                                    "difference at position %s)" % (FN2[fn], na, nb, int(np.argmax(r[:len(want)] != want[:len(r)])) if len(r) == len(want) else "length"),
                                    case, cls="C09-many-wrong")
            except IndexError as e:
                ctx.oracle_fail("%s on operands of %d and %d row ids: bounds-checked twin raised IndexError (%s) — the shipped kernel "
                                "reads/writes outside its buffers here" % (FN2[fn], na, nb, e), case, cls="C09-oob")
            except Exception as e:
                ctx.oracle_fail("%s raised %s" % (FN2[fn], type(e).__name__), case, cls="C09-raises")
    # unsorted / duplicate inputs: outside C08's precondition but inside C09's theorem
    for _ in range(ctx.n(300)):
        a = [ctx.rng.randrange(0, 12) for _ in range(ctx.rng.randrange(0, 9))]
        b = [ctx.rng.randrange(0, 12) for _ in range(ctx.rng.randrange(0, 9))]
        ctx.hit("unsorted")
        for fn in FN2:
            one(fn, a, b)
    concurrent_kernels(ctx)
    if ctx.tier == "thorough":
        asan(ctx, subs)
    if ctx.oracle_only:
        return
    ans = ctx.model.run(reqs)
    for (case, got), m in zip(pend, ans):
        if got[0] == "oob":
            same = m.get("err") in ("oobRead", "oobWrite")
        elif got[0] == "ok":
            same = m.get("ok") == got[1]
        else:
            same = False
        if not same:
            ctx.corr_fail("twin %s vs model %s" % (str(got)[:200], str(m)[:200]), case)
    # the kernels REGENERATED from the current .pyx: an Err of a checked access <=> IndexError of the twin
    gen = [(r, c, g) for r, (c, g) in zip(reqs, pend) if r["fn"] in FN2 or r["fn"] == "union_many"]
    try:
        gans = ctx.model.run([({"fn": "union_many", "arrays": r["arrays"]} if r["fn"] == "union_many" else
                               {"fn": r["fn"], "l": r["l"], "r": r["r"]}) for r, _c, _g in gen], driver="Driver/KernGen.lean")
    except core.ModelBroken as e:
        ctx.corr_fail("the kernel model regenerated from set_operations.pyx does not build/run: %s" % str(e)[-400:], {"translator": True})
        return
    ctx.hit("generated_model_requests", len(gen))
    for (r, case, got), m in zip(gen, gans):
        if got[0] == "oob":
            same = m.get("err") in ("oobRead", "oobWrite", "value")
        elif got[0] == "ok":
            same = m.get("ok") == got[1]
        else:
            same = False
        if not same:
            ctx.corr_fail("twin %s vs the model regenerated from the .pyx %s" % (str(got)[:200], str(m)[:200]), case)


CONC_SCRIPT = r'''
import sys, json, importlib.util, threading, numpy as np
spec = importlib.util.spec_from_file_location("conc_pkg.set_operations", sys.argv[1])
m = importlib.util.module_from_spec(spec); spec.loader.exec_module(m)
rng = np.random.default_rng(int(sys.argv[2]))
rounds = int(sys.argv[3])
jobs = []
for t, (k, n) in enumerate([(16, 120000), (12, 200000), (16, 60000)]):
    arrays = [np.unique(rng.integers(0, 4 * n, size=n).astype(np.uint32)) for _ in range(k)]
    jobs.append((arrays, np.unique(np.concatenate(arrays))))
pa = np.unique(rng.integers(0, 2000000, size=300000).astype(np.uint32)); pb = np.unique(rng.integers(0, 2000000, size=300000).astype(np.uint32))
out = [[] for _ in range(4)]
def many(t):
    arrays, want = jobs[t]
    for r in range(rounds):
        try:
            got = np.asarray(m.set_union_merge_many(arrays))
            if not np.array_equal(got, want):
                out[t].append("wrong: %d values, expected %d" % (len(got), len(want)))
        except IndexError as e:
            out[t].append("oob: " + str(e))
        except Exception as e:
            out[t].append("raise: " + type(e).__name__)
def pairwise(t):
    wi, wu = np.intersect1d(pa, pb), np.union1d(pa, pb)
    for r in range(rounds * 2):
        try:
            if not np.array_equal(np.asarray(m.set_intersect_merge_np(pa, pb)), wi) or not np.array_equal(np.asarray(m.set_union_merge_np(pa, pb)), wu):
                out[t].append("wrong: pairwise")
        except IndexError as e:
            out[t].append("oob: " + str(e))
ths = [threading.Thread(target=many, args=(t,)) for t in range(3)] + [threading.Thread(target=pairwise, args=(3,))]
[t.start() for t in ths]; [t.join() for t in ths]
print("RESULT " + json.dumps(out))
'''


def concurrent_kernels(ctx):
    """the kernels release the GIL: three k-way unions (12..16 arrays of 60k..200k row ids) and a stream of pairwise kernels
    running at the same time on four threads, in the bounds-checked twin (own process: a stray write must not take the
    check down with it).  Every call must stay inside ITS buffers (no IndexError from the twin) and return its own result."""
    import json
    import buildext
    so = buildext.build("checked")
    rounds = 3 if ctx.scale == 1 else 12
    try:
        p = subprocess.run([core.PY, "-c", CONC_SCRIPT, so, str(ctx.seed + 9), str(rounds)], capture_output=True, text=True, timeout=900)
    except subprocess.TimeoutExpired:
        raise core.Infra("concurrent kernel run timed out")
    case = {"concurrent": True, "threads": 4, "rounds": rounds, "seed": ctx.seed + 9}
    ctx.case(case, nontrivial=True)
    ctx.hit("concurrent_kernel_calls", rounds * 5)
    res = [l for l in p.stdout.splitlines() if l.startswith("RESULT ")]
    if not res:
        if p.returncode < 0:
            ctx.oracle_fail("the process running three k-way unions and pairwise kernels at the same time (bounds-checked twin) died with "
                            "signal %d" % -p.returncode, case, cls="C09-oob")
            return
        raise core.Infra("concurrent kernel run failed: " + p.stderr[-400:])
    out = json.loads(res[0][7:])
    for t, bad in enumerate(out):
        oob = [b for b in bad if b.startswith("oob")]
        if oob:
            ctx.oracle_fail("%s running beside three other kernel calls: the bounds-checked twin raised IndexError (%s) - the shipped "
                            "kernel reads/writes outside its buffers under this schedule (%d of its calls)" % (
                                "set_union_merge_many" if t < 3 else "a pairwise kernel", oob[0][5:], len(oob)), case, cls="C09-oob")
            return
    for t, bad in enumerate(out):
        if bad:
            ctx.oracle_fail("%s running beside three other kernel calls returned a wrong result (%s; %d of its calls) - it was "
                            "reading or writing another call's buffers" % ("set_union_merge_many" if t < 3 else "a pairwise kernel",
                                                                           bad[0], len(bad)), case, cls="C09-oob")
            return


ASAN_SCRIPT = r'''
import sys, json, importlib.util, numpy as np
spec = importlib.util.spec_from_file_location("asan_pkg.set_operations", sys.argv[1])
m = importlib.util.module_from_spec(spec); spec.loader.exec_module(m)
def u(xs, view):
    # exact-size heap buffers, so that a word read before or after one is a heap-buffer-overflow
    if view == "backwards":
        return np.array(list(reversed(xs)), dtype=np.uint32)[::-1]
    if view == "stride2":
        buf = np.zeros(max(2 * len(xs) - 1, 0), dtype=np.uint32)
        buf[::2] = xs
        return buf[::2]
    return np.array(xs, dtype=np.uint32)
n = 0
for line in sys.stdin:
    fn, a, b, view = json.loads(line)
    sys.stderr.write("CASE %s\n" % line.strip()); sys.stderr.flush()
    getattr(m, fn)(u(a, view), u(b, view)); n += 1
print("DONE", n)
'''


def asan(ctx, subs):
    """unmodified .pyx under AddressSanitizer: any heap-buffer-overflow report is a violation"""
    import json
    import buildext
    so = buildext.build("asan")
    lib = subprocess.run(["gcc", "-print-file-name=libasan.so"], capture_output=True, text=True).stdout.strip()
    lines = []
    small = [s for s in subs if len(s) <= 3]
    for a in small:
        for b in small:
            for fn in FN2.values():
                for view in (None, "backwards", "stride2"):
                    if view is None or (len(a) <= 2 and len(b) <= 2) or (len(a) + len(b)) % 5 == 0:
                        lines.append(json.dumps([fn, a, b, view]))
    env = dict(os.environ, LD_PRELOAD=lib, ASAN_OPTIONS="detect_leaks=0:halt_on_error=1")
    try:
        p = subprocess.run([core.PY, "-c", ASAN_SCRIPT, so], input="\n".join(lines) + "\n", capture_output=True,
                           text=True, env=env, timeout=900)
    except subprocess.TimeoutExpired:
        raise core.Infra("ASan run timed out")
    ctx.hit("asan_cases", len(lines))
    if "AddressSanitizer" in p.stderr:
        last = [l for l in p.stderr.split("\n") if l.startswith("CASE ")][-1][5:]
        fn, a, b, view = json.loads(last)
        rep = p.stderr[p.stderr.index("AddressSanitizer") - 10:][:600]
        short = {v: k for k, v in FN2.items()}[fn]
        ctx.oracle_fail("AddressSanitizer report in %s(%s, %s)%s: %s" % (fn, a, b, " on %s views" % view if view else "", rep),
                        dict({"fn": short, "l": a, "r": b}, **({"view": view} if view else {})),
                        cls="C09-oob-intersect-one-empty" if (short == "inter" and (not a) != (not b)) else "C09-oob")
    elif "DONE" not in p.stdout:
        raise core.Infra("ASan run failed: " + p.stderr[-500:])
    ctx.exhaustive.append("ASan build of the unmodified .pyx: %d kernel calls (contiguous, backwards and stride-2 operands in exact-size buffers), no report" % len(lines))


def replay(ctx, rep):
    ck = core.load_kernels("checked")
    c = rep["case"]
    if c.get("concurrent"):
        n0 = len(ctx.oracle_failures)
        ctx.seed = c["seed"] - 9
        concurrent_kernels(ctx)
        return len(ctx.oracle_failures) == n0
    if "big" in c:
        na, nb, step_b = c["big"]
        a = np.arange(0, na, dtype=np.uint32)
        b = np.arange(0, nb * step_b, step_b, dtype=np.uint32)[:nb]
        try:
            r = np.asarray(getattr(ck, FN2[c["fn"]])(a, b))
        except Exception:
            return False
        return np.array_equal(r, {"inter": np.intersect1d, "union": np.union1d, "diff": np.setdiff1d}[c["fn"]](a, b))
    if c.get("fn") == "union_many":
        try:
            r = ck.set_union_merge_many([u32(a) for a in c["arrays"]])
        except Exception:
            return False
        return [int(x) for x in np.asarray(r).tolist()] == (sorted(set().union(*[set(a) for a in c["arrays"]])) if c["arrays"] else [])
    got = twin(ck, c["fn"], c["l"], c["r"], c.get("view"))
    return got[0] == "ok" and all(x in set(c["l"]) | set(c["r"]) for x in got[1])
