"""C20 — an interrupt raised at any cancellation point stops the cube cleanly."""
import itertools
import multiprocessing.pool

import numpy as np

import agg_common as A
import core
import pool_common as P
from props import c13, c16

ID = "C20"
LEAN_MODULES = ["CatiiProps.C20"]
USES_TRANSLATOR = ['driver']   # Gen/DriverGen.lean: facts read off ccube.calculate / xcube.calculate (tools/translate_driver.py)
USES_MODEL = False
RULE = ("cubes with 1..k sub-cubes, both cube types; the callback raises an Exception subclass at invocation index i for "
        "EVERY i (serial), and for every subset (<=4 sub-cubes) or random subsets of invocations (pooled: permuting pool, "
        "seeded line-level scheduler, real ThreadPool under a hard timeout); checked: calculate raises (one of) the raised "
        "exception object(s), returns when nothing raises, the callback is consulted at most once per sub-cube (exactly "
        "once without a raise; i+1 times in serial mode), and a following uninterrupted calculate on the SAME cube and "
        "aggregate-function objects - serial, and again in the mode of the interrupted call with a counting callback - equals a fresh evaluation bit-for-bit and consults the callback once per sub-cube; the callback handed over as a function, a bound method, a functools.partial or a callable object whose truth value is False; every kind of exception once per cube and mode (StopIteration and a subclass, StopAsyncIteration, LookupError, ArithmeticError, and the non-Exception ones: a BaseException subclass, GeneratorExit, asyncio.CancelledError, SystemExit), serial and through the permuting pool. Non-trivial = the raise happens after at least "
        "one completed sub-cube; distinct by (cube, mode, raising set)")
ASSUMPTIONS = ["exceptions raised by the callback are compared by identity; real-ThreadPool runs with non-Exception "
               "interrupts are limited to one per run (a hang costs the 25 s timeout)"]


class Stop(Exception):
    pass


class HardStop(BaseException):
    pass


class Budget(StopIteration):
    """what `next()` on an exhausted budget iterator raises, subclassed"""


def exception_types():
    """exception classes an application's callback may raise: ordinary ones, the iterator-protocol ones (a budget callback
    such as `iter(range(n)).__next__`), and the non-Exception ones that cancel (KeyboardInterrupt-like)"""
    import asyncio
    # ... and the families a driver is most tempted to catch for reasons of its own (a pool that cannot start its threads raises
    # RuntimeError / OSError; a timeout of the application is a TimeoutError, i.e. an OSError)
    return [Stop, StopIteration, Budget, StopAsyncIteration, LookupError, ArithmeticError, HardStop, GeneratorExit,
            asyncio.CancelledError, SystemExit, TimeoutError, RuntimeError, RecursionError, ConnectionError, MemoryError,
            NotImplementedError, KeyboardInterrupt]


CALLBACK_KINDS = ["function", "function", "falsy_callable", "bound_method", "partial"]


def make_callback(raising, exc_type, log, kind="function"):
    """the callback in the shapes an application may hand over: a function, a bound method, a functools.partial, and a
    callable object whose truth value is False (an empty container that is callable)"""
    def cb():
        i = len(log)
        log.append(i)
        if i in raising:
            e = exc_type("interrupt at invocation %d" % i)
            raising[i] = e
            raise e
    if kind == "falsy_callable":
        class Quiet(list):
            def __call__(self):
                return cb()
        return Quiet()
    if kind == "bound_method":
        class Holder:
            def check(self):
                return cb()
        return Holder().check
    if kind == "partial":
        import functools
        return functools.partial(lambda tag: cb(), "x")
    return cb


def one_mode(ctx, kind, case, nsub, mode, raising_idx, desc, exc_type=Stop):
    cube = c16.build(kind, case)
    fs = c16.funcs_for(kind, case, ctx.rng)
    funcs = [f for _, f in fs]
    log = []
    raising = {i: None for i in raising_idx}
    cb_kind = ctx.rng.choice(CALLBACK_KINDS)
    ctx.hit("callback:" + cb_kind)
    cube.check_interrupt = make_callback(raising, exc_type, log, cb_kind)
    d = dict(desc, mode=mode if isinstance(mode, str) else "pool", raising=sorted(raising_idx), exc=exc_type.__name__,
             callback=cb_kind)
    ctx.case(d, nontrivial=bool(raising_idx) and min(raising_idx) > 0)

    def call():
        if mode == "serial":
            cube.parallel = False
            return cube.calculate(funcs)
        pool = mode
        return c16.run_pooled(kind, cube, funcs, pool)

    res = P.run_with_timeout(call, 25)
    if res[0] == "timeout":
        cls = "C20-hang-baseexception-in-threadpool" if exc_type is HardStop else "C20-hang"
        ctx.oracle_fail("%s calculate did not return within 25 s after the callback raised %s in a pool worker" % (
            kind, exc_type.__name__), d, cls=cls)
        return
    if raising_idx:
        if res[0] != "raise":
            ctx.oracle_fail("%s %s: the callback raised at %s but calculate returned normally" % (kind, d["mode"], sorted(raising_idx)),
                            d, cls="C20-swallowed")
        elif not any(res[1] is e for e in raising.values() if e is not None):
            ctx.oracle_fail("%s %s: calculate raised %r, which is not one of the callback's exceptions" % (kind, d["mode"], res[1]),
                            d, cls="C20-wrong-exception")
    else:
        if res[0] != "ok":
            ctx.oracle_fail("%s %s: nothing was raised by the callback but calculate raised %r" % (kind, d["mode"], res[1]), d,
                            cls="C20-spurious")
    if len(log) > nsub:
        ctx.oracle_fail("%s %s: callback consulted %d times for %d sub-cubes" % (kind, d["mode"], len(log), nsub), d, cls="C20-calls")
    if not raising_idx and len(log) != nsub:
        ctx.oracle_fail("%s %s: callback consulted %d times for %d sub-cubes" % (kind, d["mode"], len(log), nsub), d, cls="C20-calls")
    if mode == "serial" and raising_idx and len(log) != min(raising_idx) + 1:
        ctx.oracle_fail("%s serial: callback consulted %d times, expected %d" % (kind, len(log), min(raising_idx) + 1), d, cls="C20-calls")
    # re-use of the same cube and aggregate-function objects
    cube.check_interrupt = None
    cube.parallel = False
    try:
        again = c16.flat_bytes(cube.calculate(funcs))
        fresh = c16.flat_bytes(c16.build(kind, case).calculate([f for _, f in c16.funcs_for_same(kind, case, fs)]))
    except Exception as e:
        ctx.oracle_fail("%s: calculate after an interrupted run raised %s" % (kind, type(e).__name__), d, cls="C20-reuse")
        return
    if again != fresh:
        ctx.oracle_fail("%s: after an interrupted run the same objects give a different result than a fresh evaluation" % kind, d,
                        cls="C20-reuse")
        return
    # ... and once more in the mode of the interrupted call, with a counting callback that never raises
    log2 = []
    cube.check_interrupt = make_callback({}, exc_type, log2, ctx.rng.choice(CALLBACK_KINDS))
    try:
        if mode == "serial":
            again2 = c16.flat_bytes(cube.calculate(funcs))
        else:
            again2 = c16.flat_bytes(c16.run_pooled(kind, cube, funcs, P.PermutedPool(len(log) + 7 * nsub)))
    except Exception as e:
        ctx.oracle_fail("%s: a second %s calculate after an interrupted run raised %s" % (kind, d["mode"], type(e).__name__), d,
                        cls="C20-reuse")
        return
    finally:
        cube.check_interrupt = None
    if again2 != fresh:
        ctx.oracle_fail("%s: a %s calculate following an interrupted one on the same objects differs from a fresh evaluation" % (
            kind, d["mode"]), d, cls="C20-reuse")
    if len(log2) != nsub:
        ctx.oracle_fail("%s %s: on the run following an interrupted one the callback was consulted %d times for %d sub-cubes" % (
            kind, d["mode"], len(log2), nsub), d, cls="C20-calls")


def run(ctx):
    core.load_catii()
    for _ in range(ctx.n(14, 300)):
        case = c13.gen_multi(ctx.rng)
        scaff = [e for d in case["dense"] for e in d.shape[1:]]
        nsub = int(np.prod(scaff)) if scaff else 1
        if nsub > 12:
            continue
        for kind in ("ccube", "xcube"):
            desc = A.small_desc(case, {"cube": kind, "subcubes": nsub})
            ctx.hit("subcubes:%d" % nsub)
            for i in range(nsub):                       # every cancellation point, serial
                one_mode(ctx, kind, case, nsub, "serial", {i}, desc)
            one_mode(ctx, kind, case, nsub, "serial", set(), desc)
            for et in exception_types()[1:]:          # every kind of exception, at a random cancellation point, serial
                ctx.hit("exc:" + et.__name__)
                one_mode(ctx, kind, case, nsub, "serial", {ctx.rng.randrange(nsub)}, desc, exc_type=et)
            if nsub <= 2:
                continue                                  # pooling engages for more than two sub-cubes
            subsets = ([set(s) for r in range(0, nsub + 1) for s in itertools.combinations(range(nsub), r)]
                       if nsub <= 4 else [set(ctx.rng.sample(range(nsub), ctx.rng.randrange(0, nsub + 1))) for _ in range(6)])
            if ctx.scale == 1 and len(subsets) > 8:
                subsets = ctx.rng.sample(subsets, 8)
            for sub in subsets:
                pool = ctx.rng.choice([P.PermutedPool(ctx.rng.randrange(10**6)),
                                       P.SeededInterleavingPool(ctx.rng.randrange(10**6), 0.2)])
                ctx.hit("pooled:" + type(pool).__name__)
                one_mode(ctx, kind, case, nsub, pool, sub, desc)
            for et in exception_types()[1:]:          # ... and pooled (order-permuting pool: runs in the calling thread)
                one_mode(ctx, kind, case, nsub, P.PermutedPool(ctx.rng.randrange(10**6)), {ctx.rng.randrange(nsub)}, desc, exc_type=et)
            # the real ThreadPool
            for sub in ([set(), {0}, {nsub - 1}, set(range(nsub))]):
                ctx.hit("pooled:ThreadPool")
                with P.switch_interval(1e-6):
                    one_mode(ctx, kind, case, nsub, multiprocessing.pool.ThreadPool, sub, desc)
        # a BaseException from a real pool worker (KeyboardInterrupt-like)
        if nsub > 2 and ctx.dist.get("baseexception", 0) < 1:
            ctx.hit("baseexception")
            one_mode(ctx, "ccube", case, nsub, multiprocessing.pool.ThreadPool, {1}, A.small_desc(case, {"cube": "ccube"}),
                     exc_type=HardStop)


def replay(ctx, rep):
    return True
