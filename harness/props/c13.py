"""C13 — extra axes are outermost, in order, and index independent sub-cubes."""
import itertools

import numpy as np

import agg_common as A
import core
import gen_cube as G
import idx_common as I
from props import c03

ID = "C13"
LEAN_MODULES = ["CatiiProps.C13"]
USES_TRANSLATOR = ['slices1d']   # Gen/SlicesGen.lean: iindex.slices1d as the list of yielded pairs (tools/translate_slices.py)
RULE = ("dimension lists with at least one two- or three-axis index, extra extents 1..4 chosen pairwise different where "
        "possible (exposes transposed axes), several multi-axis dims at once, scaffolds made of unit axes only ((N,1), (N,1,1), two such dims), some extra-axis positions entirely at the common value (a slice without entries); every aggregate of C03 on both cube types: "
        "result.shape == extra extents (dimension order, then axis order) + category extents (+ fact columns) and every "
        "block result[j1..jm] == the same aggregate over the dims sliced at (j1..jm), computed by the real code on the "
        "1-D slices, and == the direct per-cell computation (Fractions) over those slices - also for an index cube built BEFORE one of its multi-axis dimensions is updated in place; sparse multi-axis dimensions declaring 2^28..2^30 rows (where the index cube turns its thread pool on by itself; 5, 6, 7, 9 sub-cubes) block by block against the cubes of their slices; the model's slices1d labels/slices are compared with the real generator. Non-trivial = at least two "
        "sub-cubes; distinct by (case, aggregate, cube type)")
ASSUMPTIONS = ["as C03 (exact dyadic stream)"]


def gen_multi(rng):
    k = rng.choice([1, 2, 2, 3])
    N = rng.choice([1, 2, 4, 7, 12])
    pool = [1, 2, 3, 4]
    rng.shuffle(pool)
    dense, commons, extents = [], [], []
    n_multi = 0
    for a in range(k):
        extent = rng.randrange(1, 4)
        nd = rng.choice([1, 2, 2, 3])
        if a == k - 1 and n_multi == 0 and nd == 1:
            nd = 2
        hi = tuple(pool.pop() if pool else rng.randrange(1, 4) for _ in range(nd - 1))
        if nd > 1:
            n_multi += 1
        d = G.gen_dense(rng, N, extent, hi)
        c, _ = G.pick_common(rng, d, extent)
        if nd > 1 and rng.random() < 0.4:      # an extra-axis position where every row holds the common value
            pos = tuple(rng.randrange(e) for e in hi)
            d[(slice(None),) + pos] = c
        dense.append(d); commons.append(c); extents.append(extent)
    case = dict(dense=dense, commons=commons, extents=extents, modes=["x"] * k, N=N)
    K = rng.choice([None, None, 2])
    fshape = (N,) if K is None else (N, K)
    case.update(fact_vals=np.array([A.dyadic(rng) for _ in range(int(np.prod(fshape)))]).reshape(fshape),
                fact_valid=np.array([rng.random() < 0.8 for _ in range(int(np.prod(fshape)))], dtype=bool).reshape(fshape),
                fact_form=rng.choice(["nan", "pair"]),
                weights=rng.choice([None, ("array_valid", np.array([rng.choice([0.5, 1.0, 2.0]) for _ in range(N)]),
                                          np.array([rng.random() < 0.9 for _ in range(N)], dtype=bool))]),
                ignore=rng.random() < 0.5, K=K, general=False)
    return case


def check(ctx, case, reqs, pend):
    from catii import ccube, xcube
    dense, commons, N = case["dense"], case["commons"], case["N"]
    idxs = [G.make_index(d, c) for d, c in zip(dense, commons)]
    ishape = tuple(int(max([int(v) for v in np.unique(d).tolist()] + [c])) + 1 for d, c in zip(dense, commons))
    scaff = tuple(e for d in dense for e in d.shape[1:])
    K = case["K"]
    cubes = {"ccube": ccube(idxs, interacting_shape=ishape),
             "xcube": xcube([d.astype(np.int64) for d in dense], interacting_shape=ishape)}
    nsub = int(np.prod(scaff)) if scaff else 1
    for func in A.FUNCS:
        for kind, cube in cubes.items():
            desc = A.small_desc(case, {"func": func, "cube": kind})
            ctx.case(desc, nontrivial=nsub >= 2)
            ctx.hit("%s.%s" % (kind, func))
            ctx.hit("subcubes:%d" % min(nsub, 20))
            try:
                v, m = A.call(cube, func, case, ("pair", 0))
            except Exception as e:
                ctx.oracle_fail("%s.%s raised %s: %s" % (kind, func, type(e).__name__, str(e)[:80]), desc, cls="C13-raises")
                continue
            tail = () if (K is None or func == "count") else (K,)
            want_shape = scaff + ishape + tail
            if tuple(v.shape) != want_shape:
                ctx.oracle_fail("%s.%s: result shape %s, expected extra extents %s + category extents %s + %s" % (
                    kind, func, tuple(v.shape), scaff, ishape, tail), desc, cls="C13-shape")
                continue
            # every block equals the cube of the corresponding 1-D slices
            ranges = [list(itertools.product(*[range(e) for e in d.shape[1:]])) for d in dense]
            for combo in itertools.product(*ranges):
                js = tuple(e for hi in combo for e in hi)
                if kind == "ccube":
                    sub = ccube([ix.sliced(*hi) if hi else ix for ix, hi in zip(idxs, combo)], interacting_shape=ishape)
                else:
                    sub = xcube([d[(slice(None),) + hi].astype(np.int64) for d, hi in zip(dense, combo)], interacting_shape=ishape)
                try:
                    sv, sm = A.call(sub, func, case, ("pair", 0))
                except Exception as e:
                    ctx.oracle_fail("%s.%s on the 1-D slices %s raised %s" % (kind, func, js, type(e).__name__), desc, cls="C13-raises")
                    break
                bv, bm = v[js], m[js]
                if bv.shape != sv.shape or not np.array_equal(bm, sm) or not np.array_equal(bv[~bm], sv[~sm]):
                    ctx.oracle_fail("%s.%s: block %s differs from the aggregate over the dims sliced at %s" % (
                        kind, func, js, combo), desc, cls="C13-block")
                    break
                # ... and equals the direct per-cell computation over those slices (independent of the cube code)
                cols1d = [d[(slice(None),) + hi] for d, hi in zip(dense, combo)]
                cols = [None] if (K is None or func == "count") else list(range(K))
                exp = {col: A.direct_cells(case, func, cols1d, ishape, col) for col in cols}
                if not c03.compare(ctx, "%s.%s block %s" % (kind, func, js), bv, bm, exp, ishape, K, 0, desc, "C13-block-direct"):
                    break
    # the same stack with the worker pool engaged (the cubes turn it on by themselves for large inputs): every block is still
    # the block of the serial evaluation - seeded line-level interleavings of the sub-cube tasks and a real ThreadPool
    if nsub >= 2 and N > 0 and ctx.dist.get("pooled_stack_cases", 0) < 80:      # bounded: the line-level scheduler is slow
        ctx.hit("pooled_stack_cases")
        import multiprocessing.pool
        import pool_common as P
        for kind in ("ccube", "xcube"):
            for func in ("count", "mean"):
                try:
                    ref = A.call(cubes[kind], func, case, ("pair", 0))
                except Exception:
                    continue
                pools = [("seeded", P.SeededInterleavingPool(ctx.rng.randrange(10 ** 6), pr)) for pr in (0.3, 0.7)]
                pools.append(("threadpool", multiprocessing.pool.ThreadPool))
                for pname, pool in pools:
                    desc = A.small_desc(case, {"func": func, "cube": kind, "pooled": pname, "seed": getattr(pool, "seed", None)})
                    ctx.case(desc, nontrivial=True)
                    ctx.hit("pooled_stack:" + pname)
                    cube = (ccube(idxs, interacting_shape=ishape) if kind == "ccube"
                            else xcube([d.astype(np.int64) for d in dense], interacting_shape=ishape))
                    cube.parallel = True
                    cube.poolsize = 3
                    try:
                        if kind == "xcube":
                            cube.pool_class = pool
                            got = P_run(lambda: A.call(cube, func, case, ("pair", 0)))
                        else:
                            with P.ccube_pool(pool):
                                got = P_run(lambda: A.call(cube, func, case, ("pair", 0)))
                    except core.Infra:
                        raise
                    except Exception as e:
                        ctx.oracle_fail("%s.%s with the pool engaged (%s) raised %s: %s" % (kind, func, pname, type(e).__name__, str(e)[:60]),
                                        desc, cls="C13-raises")
                        continue
                    gv, gm = got
                    if gv.shape != ref[0].shape or not np.array_equal(gm, ref[1]) or not np.array_equal(gv[~gm], ref[0][~ref[1]]):
                        bad = "shape" if gv.shape != ref[0].shape else tuple(int(x) for x in np.argwhere((gm != ref[1]) | ((gv != ref[0]) & ~gm))[0])
                        ctx.oracle_fail("%s.%s with the pool engaged (%s): the stacked result differs from the serial one at %s - a block is "
                                        "no longer the aggregate over its own slices" % (kind, func, pname, bad), desc, cls="C13-block")
                        break
    # a long-lived index cube whose multi-axis dimension is updated in place between two aggregate calls
    multi_axes = [a for a, d in enumerate(dense) if d.ndim > 1]
    if multi_axes and N > 0:
        a = ctx.rng.choice(multi_axes)
        live = [ix.copy() for ix in idxs]
        try:
            cube = ccube(live, interacting_shape=ishape)
            A.call(cube, "count", case, ("pair", 0))
            d2 = dense[a].copy()
            present = sorted(set(int(v) for v in d2.reshape(-1).tolist()) | {int(commons[a])})
            for _ in range(ctx.rng.randrange(1, 4)):
                pos = tuple(ctx.rng.randrange(s_) for s_ in d2.shape)
                d2[pos] = ctx.rng.choice(present)
            ent = {}
            for pos in itertools.product(*[range(s_) for s_ in d2.shape]):
                if d2[pos] != dense[a][pos]:
                    ent.setdefault((int(d2[pos]),) + tuple(pos[1:]), []).append(pos[0])
            live[a].update({k: np.array(sorted(v), dtype=np.uint32) for k, v in ent.items()})
            case2 = dict(case, dense=[d2 if j == a else d for j, d in enumerate(dense)])
            for func in ("count", "sum"):
                desc2 = A.small_desc(case2, {"func": func, "cube": "ccube", "updated_dim": a, "live_cube": True})
                ctx.evaluations += 1
                v2, m2 = A.call(cube, func, case2, ("pair", 0))
                ranges2 = [list(itertools.product(*[range(e) for e in d.shape[1:]])) for d in case2["dense"]]
                done = False
                for combo in itertools.product(*ranges2):
                    js = tuple(e for hi in combo for e in hi)
                    cols1d = [d[(slice(None),) + hi] for d, hi in zip(case2["dense"], combo)]
                    cols = [None] if (K is None or func == "count") else list(range(K))
                    exp = {col: A.direct_cells(case2, func, cols1d, ishape, col) for col in cols}
                    if not c03.compare(ctx, "ccube.%s (cube built before dimension %d was updated in place) block %s" % (func, a, js),
                                       v2[js], m2[js], exp, ishape, K, 0, desc2, "C13-block-direct"):
                        done = True
                        break
                if done:
                    break
            ctx.hit("live_cube_updated")
        except Exception as e:
            ctx.oracle_fail("live cube after an in-place update raised %s: %s" % (type(e).__name__, str(e)[:60]),
                            A.small_desc(case), cls="C13-raises")
    # slices1d of every multi-axis dim: model vs real generator (labels and slices)
    for ix in idxs:
        if len(ix.shape) > 1:
            got = sorted([[int(c) for c in co], I.canon(I.to_json(sl))] for co, sl in ix.slices1d())
            reqs.append({"op": "iidx", "m": "slices1d", "self": I.to_json(ix)})
            pend.append((A.small_desc(case), got))


def same_object_twice(ctx):
    """a dimension object listed more than once in one cube (a variable crossed with itself, with or without another one in
    between): every block is still the cube of the slices its labels name"""
    from catii import ccube, xcube
    rng = np.random.default_rng(ctx.seed + 13)
    for cols, N in ((2, 9), (3, 14)):
        A = rng.integers(0, 3, size=(N, cols))
        C = rng.integers(0, 2, size=N)
        mr = G.make_index(A, int(rng.integers(0, 3)))
        cat = G.make_index(C, 0)
        for dims, dense, name in (([mr, mr], [A, A], "[A, A]"), ([mr, cat, mr], [A, C, A], "[A, C, A]"), ([cat, mr, mr], [C, A, A], "[C, A, A]")):
            shape = tuple(3 if d.ndim == 2 else 2 for d in dense)
            desc = {"same_object_twice": name, "A": A.tolist(), "C": C.tolist(), "common_A": int(mr.common)}
            ctx.case(desc, nontrivial=True)
            ctx.hit("same_object_twice")
            try:
                res = np.asarray(ccube(dims, interacting_shape=shape).count(return_missing_as=(0, False))[0])
                xres = np.asarray(xcube(dense, interacting_shape=shape).count(return_missing_as=(0, False))[0])
            except Exception as e:
                ctx.oracle_fail("count over %s raised %s: %s" % (name, type(e).__name__, str(e)[:80]), desc, cls="C13-raises")
                continue
            scaff = [range(d.shape[1]) if d.ndim == 2 else [None] for d in dense]
            for js in itertools.product(*scaff):
                cols1d = [d[:, j] if j is not None else d for d, j in zip(dense, js)]
                exp = G.brute_table(cols1d, shape, N)
                lab = tuple(j for j in js if j is not None)
                ctx.evaluations += 1
                if not np.array_equal(res[lab], exp) or not np.array_equal(xres[lab], exp):
                    which = "ccube" if not np.array_equal(res[lab], exp) else "xcube"
                    ctx.oracle_fail("%s count over %s (one dimension object listed twice): block %s is %s, the columns it names give %s" % (
                        which, name, lab, (res if which == "ccube" else xres)[lab].tolist(), exp.tolist()), desc, cls="C13-block-direct")
                    break


def declared_huge(ctx):
    """sparse multi-axis dimensions declaring 2^28 .. 2^30 rows (a handful listed): the index cube switches to its
    thread pool by itself at this size; every block must still be the cube of the 1-D slices its label names"""
    from catii import ccube, iindex
    for scaffold in ([(2, 3), (5,), (7,), (3, 3)] if ctx.scale == 1 else [(2, 3), (5,), (7,), (3, 3), (2, 5), (9,), (3, 2, 2), (11,)]):
        N = ctx.rng.choice([2**28, 2**29 + 3, 2**30])
        dims, shapes = [], []
        for cols in scaffold:
            extent = ctx.rng.randrange(2, 4)
            common = ctx.rng.randrange(extent)
            ent = {}
            for c in range(cols):
                used = set()
                for v in range(extent):
                    if v == common or ctx.rng.random() < 0.25:
                        continue
                    rows = sorted(set(ctx.rng.choice([0, 1, 2, 3, 5, 8, N - 1, N - 2, N // 2, 2**24 + 1])
                                      for _r in range(ctx.rng.randrange(1, 4))) - used)
                    if rows:
                        used |= set(rows)
                        ent[(v, c)] = np.array(rows, dtype=np.uint32)
            dims.append(iindex(ent, common, (N, cols)))
            shapes.append(extent)
        desc = {"declared_rows": N, "scaffold": list(scaffold),
                "dims": [{"common": int(d.common), "entries": {str(k): v.tolist() for k, v in dict.items(d)}} for d in dims]}
        ctx.case(desc, nontrivial=True)
        try:
            cube = ccube(dims, interacting_shape=tuple(shapes))
            ctx.hit("declared_huge:pooled" if cube.parallel else "declared_huge:serial")
            res = np.asarray(P_run(lambda: cube.count(return_missing_as=(0, False))[0]))
        except Exception as e:
            ctx.oracle_fail("count over dimensions declaring %d rows raised %s: %s" % (N, type(e).__name__, str(e)[:80]), desc,
                            cls="C13-raises")
            continue
        per_dim = [list(d.slices1d()) for d in dims]
        for combo in itertools.product(*per_dim):
            js = tuple(int(e) for co, _ in combo for e in co)
            sub = np.asarray(ccube([sl for _, sl in combo], interacting_shape=tuple(shapes)).count(return_missing_as=(0, False))[0])
            ctx.evaluations += 1
            if not np.array_equal(res[js], sub):
                ctx.oracle_fail("count over dimensions declaring %d rows: block %s is %s, the cube of the slices labelled %s is %s" % (
                    N, js, res[js].tolist(), js, sub.tolist()), desc, cls="C13-block-direct")
                break


def P_run(fn):
    import pool_common as P
    r = P.run_with_timeout(fn, 120)
    if r[0] == "timeout":
        raise core.Infra("pooled count did not finish within 120 s")
    if r[0] == "raise":
        raise r[1]
    return r[1]


def run(ctx):
    core.load_catii()
    reqs, pend = [], []
    for _ in range(ctx.n(25)):
        check(ctx, gen_multi(ctx.rng), reqs, pend)
    # extra axes that all have extent exactly 1: (N, 1), (N, 1, 1), two such dimensions, one next to a plain one -
    # the stack is a single block, but the result still carries the unit axes
    for shapes in ([(1,)], [(1, 1)], [(1,), (1,)], [(1,), ()], [(), (1, 1)]):
        for _rep in range(2 if ctx.scale == 1 else 6):
            while True:
                case = gen_multi(ctx.rng)
                if len(case["dense"]) == len(shapes) and case["N"] > 0:
                    break
            rng, N = ctx.rng, case["N"]
            for j, hi in enumerate(shapes):
                extent = rng.randrange(1, 4)
                d = G.gen_dense(rng, N, extent, hi)
                c, _ = G.pick_common(rng, d, extent)
                case["dense"][j], case["commons"][j], case["extents"][j] = d, c, extent
            ctx.hit("unit_scaffold")
            check(ctx, case, reqs, pend)
    declared_huge(ctx)
    same_object_twice(ctx)
    if ctx.oracle_only:
        return
    for (desc, got), m in zip(pend, ctx.model.run(reqs)):
        mm = sorted([c, I.canon(j)] for c, j in m.get("ok", []))
        if mm != got:
            ctx.corr_fail("slices1d: impl %s model %s" % (str(got)[:200], str(mm)[:200]), desc)


def replay(ctx, rep):
    return True
