"""C16 — pooled evaluation is schedule-independent."""
import itertools
import multiprocessing.pool

import numpy as np

import agg_common as A
import core
import gen_cube as G
import pool_common as P
from props import c13

ID = "C16"
LEAN_MODULES = ["CatiiProps.C16"]
USES_TRANSLATOR = ['driver']   # Gen/DriverGen.lean: facts read off ccube.calculate / xcube.calculate (tools/translate_driver.py)
USES_MODEL = False
RULE = ("cubes with more than two sub-cubes (multi-axis dims), both cube types, every aggregate of C03 (and the "
        "array-cube statistics of C18) singly and several together; pooled runs (cube.parallel = True) under: every "
        "permutation of the task order (<=4 sub-cubes) or seeded permutations, a deterministic seeded scheduler that "
        "interleaves the worker tasks at source-line granularity, and real ThreadPools of size 1..16 under a 1e-6 s switch "
        "interval; every output compared bit-for-bit (bytes and dtype) with the serial run; the region views handed to the "
        "tasks are checked pairwise with numpy.shares_memory; one cube object over a history pooled / cancelled by its check_interrupt callback (Exception, BaseException) / pooled / serial / pooled, every completed evaluation compared with the serial output of a fresh cube. Non-trivial = at least 3 sub-cubes; distinct by (cube, "
        "aggregates, pool, schedule seed)")
ASSUMPTIONS = ["the GIL and NumPy's internal locking; allocator behaviour; diagnostic counters are outside the property"]
TRUSTED = ["harness/pool_common.py (permuting pool, seeded line-level scheduler)"]


def funcs_for(kind, case, rng):
    from catii import ffuncs, xfuncs
    mod = ffuncs if kind == "ccube" else xfuncs
    pre = "ffunc_" if kind == "ccube" else "xfunc_"
    fa, w, ign = A.fact_arg(case), A.weights_arg(case), case["ignore"]
    mk = {
        "count": lambda: getattr(mod, pre + "count")(w, None, ign, float("nan")),
        "valid_count": lambda: getattr(mod, pre + "valid_count")(fa, w, ign, float("nan")),
        "sum": lambda: getattr(mod, pre + "sum")(fa, w, ign, (0, False)),
        "mean": lambda: getattr(mod, pre + "mean")(fa, w, ign, float("nan")),
    }
    if kind == "xcube":
        mk["stddev"] = lambda: xfuncs.xfunc_stddev(fa, w, ign, float("nan"))
        if case["K"] is None:
            mk["max"] = lambda: xfuncs.xfunc_op_base(fa, "max", ign, float("nan")) if hasattr(xfuncs, "xfunc_op_base") else None
        # the per-cell statistics go through the row-mask generator of the array cube
        mk["quantile"] = lambda: xfuncs.xfunc_quantile(fa, 0.5, w, ign, float("nan"))
        if case["K"] is not None and case["K"] >= 2:
            mk["covariance"] = lambda: xfuncs.xfunc_covariance(fa, w, ign, float("nan"))
            mk["corrcoef"] = lambda: xfuncs.xfunc_corrcoef(fa, None, ign, float("nan"))
    mk["count_unweighted"] = lambda: getattr(mod, pre + "count")(None, None, ign, float("nan"))
    names = sorted(mk) if rng.random() < 0.7 else rng.sample(sorted(mk), rng.randrange(1, len(mk) + 1))
    out = []
    for n in names:
        try:
            f = mk[n]()
        except Exception:
            f = None
        if f is not None:
            out.append((n, f))
    return out


def flat_bytes(results):
    out = []
    for r in results:
        parts = r if isinstance(r, tuple) else (r,)
        out.append([(np.asarray(p).dtype.str, np.asarray(p).shape, np.asarray(p).tobytes()) for p in parts])
    return out


def build(kind, case):
    from catii import ccube, xcube
    idxs = [G.make_index(d, c) for d, c in zip(case["dense"], case["commons"])]
    ishape = tuple(int(max([int(v) for v in np.unique(d).tolist()] + [c])) + 1 for d, c in zip(case["dense"], case["commons"]))
    if kind == "ccube":
        return ccube(idxs, interacting_shape=ishape)
    return xcube([d.astype(np.int64) for d in case["dense"]], interacting_shape=ishape)


def run_pooled(kind, cube, funcs, pool):
    cube.parallel = True
    if kind == "ccube":
        with P.ccube_pool(pool):
            return cube.calculate(funcs)
    cube.pool_class = pool
    return cube.calculate(funcs)


def views_check(ctx, kind, case, desc):
    """the region views handed to distinct tasks must not share memory"""
    from catii import ffuncs, xfuncs
    seen = []
    if kind == "ccube":
        class Spy(ffuncs.ffunc_count):
            def fill_func(self, regions):
                seen.append([r for r in regions])
                return super().fill_func(regions)
        f = Spy()
    else:
        class Spy(xfuncs.xfunc_count):
            def fill(self, coordinates, regions):
                seen.append([r for r in regions])
                return super().fill(coordinates, regions)
        f = Spy()
    cube = build(kind, case)
    cube.calculate([f])
    for a, b in itertools.combinations(range(len(seen)), 2):
        for ra in seen[a]:
            for rb in seen[b]:
                if np.shares_memory(ra, rb):
                    ctx.oracle_fail("%s: the region views handed to sub-cube tasks %d and %d overlap" % (kind, a, b), desc,
                                    cls="C16-views-overlap")
                    return
    ctx.hit("views_pairwise_disjoint", len(seen))


def run(ctx):
    core.load_catii()
    templates = [lambda c: len(c["dense"]) >= 3 and c["dense"][0].ndim >= 2,     # >=3 dims, extra axes on the FIRST one
                 lambda c: len(c["dense"]) >= 2 and c["dense"][-1].ndim >= 2,    # extra axes on the last one
                 lambda c: sum(1 for d in c["dense"] if d.ndim >= 2) >= 2,       # two dims with extra axes
                 lambda c: True]
    for it in range(ctx.n(8, 60)):
        want = templates[it % len(templates)]
        for _try in range(300):                    # pooling engages for more than two sub-cubes
            case = c13.gen_multi(ctx.rng)
            scaff = [e for d in case["dense"] for e in d.shape[1:]]
            if 3 <= (int(np.prod(scaff)) if scaff else 1) <= 12 and want(case):
                break
        ctx.hit("template:%d" % (it % len(templates)))
        if it % 2 == 1 and case["K"] is None:      # every other case has a several-column fact
            N = case["N"]
            case["K"] = 2
            case["fact_vals"] = np.array([A.dyadic(ctx.rng) for _ in range(N * 2)]).reshape(N, 2)
            case["fact_valid"] = np.array([ctx.rng.random() < 0.8 for _ in range(N * 2)], dtype=bool).reshape(N, 2)
        scaff = [e for d in case["dense"] for e in d.shape[1:]]
        nsub = int(np.prod(scaff)) if scaff else 1
        if nsub <= 2:
            continue
        for kind in ("ccube", "xcube"):
            fs = funcs_for(kind, case, ctx.rng)
            desc = A.small_desc(case, {"cube": kind, "funcs": [n for n, _ in fs], "subcubes": nsub})
            try:
                serial = flat_bytes(build(kind, case).calculate([f for _, f in funcs_for_same(kind, case, fs)]))
            except Exception as e:
                ctx.case(desc)
                ctx.oracle_fail("serial calculate raised %s: %s" % (type(e).__name__, str(e)[:80]), desc, cls="C16-serial-raises")
                continue
            views_check(ctx, kind, case, desc)
            lived_cube(ctx, kind, case, fs, serial, desc)
            schedules = []
            if nsub <= 4:
                for s in range(min(24 if ctx.scale > 1 else 6, len(list(itertools.permutations(range(nsub)))))):
                    schedules.append(("permuted", P.PermutedPool(s)))
            else:
                for s in range(4):
                    schedules.append(("permuted", P.PermutedPool(ctx.rng.randrange(10**6))))
            for s in range((48 if it % len(templates) == 0 else 16) if ctx.scale == 1 else 80):
                schedules.append(("seeded-interleaving", P.SeededInterleavingPool(ctx.rng.randrange(10**6), ctx.rng.choice([0.1, 0.35, 0.7]))))
            sizes = [1, 3, 16] if ctx.scale == 1 else list(range(1, 17))
            for ps in sizes:
                schedules.append(("threadpool-%d" % ps, ps))
            schedules.append(("lost-update", "lost-update"))
            for name, pool in schedules:
                cube = build(kind, case)
                if pool == "lost-update":
                    pool = P.LostUpdatePool(cube)
                funcs = [f for _, f in funcs_for_same(kind, case, fs)]
                ctx.case(dict(desc, schedule=name, seed=getattr(pool, "seed", None)), nontrivial=nsub >= 3)
                ctx.hit("pool:" + name.split("-")[0])
                try:
                    if isinstance(pool, int):
                        cube.poolsize = pool
                        with P.switch_interval(1e-6):
                            res = P.run_with_timeout(lambda: run_pooled(kind, cube, funcs, multiprocessing.pool.ThreadPool), 60)
                        if res[0] == "timeout":
                            raise core.Infra("pooled calculate did not finish within 60 s")
                        if res[0] == "raise":
                            raise res[1]
                        out = res[1]
                    else:
                        out = run_pooled(kind, cube, funcs, pool)
                except core.Infra:
                    raise
                except Exception as e:
                    ctx.oracle_fail("pooled calculate (%s) raised %s: %s" % (name, type(e).__name__, str(e)[:80]), desc,
                                    cls="C16-pooled-raises")
                    continue
                if flat_bytes(out) != serial:
                    ctx.oracle_fail("%s pooled output under schedule %s (seed %s) differs from the serial output" % (
                        kind, name, getattr(pool, "seed", None)), dict(desc, schedule=name, seed=getattr(pool, "seed", None)),
                        cls="C16-differs")
                if isinstance(pool, P.SeededInterleavingPool):
                    ctx.hit("line_switches", pool.switches)
                if isinstance(pool, P.LostUpdatePool):
                    ctx.hit("diagnostic_updates_lost", pool.lost)


class Halt(BaseException):
    """what an embedding application raises from check_interrupt to cancel an evaluation"""


def lived_cube(ctx, kind, case, fs, serial, desc):
    """ONE cube object over a history of use: pooled; pooled again and cancelled part-way by its check_interrupt
    callback (an Exception, then a BaseException); pooled once more; serial.  Every completed evaluation must equal
    the serial output of a fresh cube: an earlier evaluation, finished or cancelled, leaves nothing behind."""
    cube = build(kind, case)
    steps = [("pooled", None), ("cancelled", ValueError), ("pooled", None), ("cancelled", Halt), ("pooled", None),
             ("serial", None), ("pooled", None)]
    for n, (what, exc) in enumerate(steps):
        funcs = [f for _, f in funcs_for_same(kind, case, fs)]
        hdesc = dict(desc, history=[w if e is None else "%s(%s)" % (w, e.__name__) for w, e in steps[:n + 1]])
        ctx.case(hdesc, nontrivial=True)
        ctx.hit("history:" + what)
        calls = [0]
        stop_at = ctx.rng.randrange(0, 3)

        def cb():
            calls[0] += 1
            if calls[0] > stop_at:
                raise exc("cancelled by the application")
        cube.check_interrupt = cb if exc is not None else None
        try:
            if what == "serial":
                cube.parallel = False
                out = cube.calculate(funcs)
            else:
                res = P.run_with_timeout(lambda: run_pooled(kind, cube, funcs, P.PermutedPool(ctx.rng.randrange(10**6))), 60)
                if res[0] == "timeout":
                    ctx.oracle_fail("%s: pooled calculate of a re-used cube did not return within 60 s (history %s)" % (
                        kind, hdesc["history"]), hdesc, cls="C16-history")
                    return
                if res[0] == "raise":
                    raise res[1]
                out = res[1]
        except BaseException as e:
            if exc is not None and isinstance(e, exc):
                continue
            if isinstance(e, (KeyboardInterrupt, SystemExit)):
                raise
            ctx.oracle_fail("%s: %s evaluation of a re-used cube raised %s: %s (history %s)" % (
                kind, what, type(e).__name__, str(e)[:60], hdesc["history"]), hdesc, cls="C16-history")
            return
        finally:
            cube.check_interrupt = None
        if exc is not None:
            continue        # the callback was never reached (nothing to cancel): a completed run, compared below
        if flat_bytes(out) != serial:
            ctx.oracle_fail("%s: %s evaluation of a cube object with the history %s differs from the serial output of a "
                            "fresh cube" % (kind, what, hdesc["history"]), hdesc, cls="C16-history")
            return


def funcs_for_same(kind, case, fs):
    """fresh aggregate-function objects of the same kinds (objects are single-use per comparison here)"""
    from catii import ffuncs, xfuncs
    mod = ffuncs if kind == "ccube" else xfuncs
    pre = "ffunc_" if kind == "ccube" else "xfunc_"
    fa, w, ign = A.fact_arg(case), A.weights_arg(case), case["ignore"]
    out = []
    for n, _ in fs:
        if n == "count":
            out.append((n, getattr(mod, pre + "count")(w, None, ign, float("nan"))))
        elif n == "count_unweighted":
            out.append((n, getattr(mod, pre + "count")(None, None, ign, float("nan"))))
        elif n == "sum":
            out.append((n, getattr(mod, pre + "sum")(fa, w, ign, (0, False))))
        elif n == "stddev":
            out.append((n, xfuncs.xfunc_stddev(fa, w, ign, float("nan"))))
        elif n == "quantile":
            out.append((n, xfuncs.xfunc_quantile(fa, 0.5, w, ign, float("nan"))))
        elif n == "covariance":
            out.append((n, xfuncs.xfunc_covariance(fa, w, ign, float("nan"))))
        elif n == "corrcoef":
            out.append((n, xfuncs.xfunc_corrcoef(fa, None, ign, float("nan"))))
        else:
            out.append((n, getattr(mod, pre + n)(fa, w, ign, float("nan"))))
    return out


def replay(ctx, rep):
    return True
