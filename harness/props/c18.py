"""C18 — array-cube-only statistics equal the per-cell textbook statistic."""
import itertools
import warnings

import numpy as np

import agg_common as A
import core
import gen_cube as G

ID = "C18"
LEAN_MODULES = ["CatiiProps.C18"]
USES_TRANSLATOR = ['missing_rule']   # Gen/MissingGen.lean: the output_is_missing expressions of every reduce (tools/translate_missing.py)
USES_MODEL = True
RULE = ("array dimensions as C03 (1..3 dims, extents <=3, N<=14) plus a wide stream (1-2 dims whose extent / product of extents "
        "straddles 2^8, thorough: 2^16, N<=400) and ill-conditioned facts (offset 1.7e9 with spread < 10; constant 0.1 cells); facts (N,) / (N,K<=3) with any missing pattern in both "
        "argument forms, weights none / positive array; both policies; per cell the statistic is recomputed from the rows of "
        "the cell with NumPy: stddev (ddof=1; weighted: reliability-weighted variance x n/(n-1)), quantile for p in {0, 0.1, "
        "0.25, 0.5, 0.9, 1} (unweighted, linear interpolation), weighted-quantile laws (missing rule, invariance under "
        "rescaling all weights, result within [min, max] of the valid values), min/max for float/int/datetime64 facts (datetime also as a single NaT-marked array, both report formats), "
        "covariance (optionally weighted) and unweighted correlation (complete rows when ignoring, per column pair "
        "otherwise; entries with zero variance or <2 rows not compared); NaN and (values, validity) formats must describe "
        "the same missing cells and values. Non-trivial = a cell with >=2 valid rows; distinct by (case, statistic)")
ASSUMPTIONS = ["NumPy's own quantile/cov/corrcoef/std on the rows of a cell are the textbook statistics",
               "floating-point tolerance 1e-9 relative"]
TOL = 1e-9


def cell_rows(dense, ishape):
    N = len(dense[0]) if dense else 0
    groups = {}
    for r in range(N):
        groups.setdefault(tuple(int(d[r]) for d in dense), []).append(r)
    return {cell: groups.get(cell, []) for cell in itertools.product(*[range(s) for s in ishape])}


def close(a, b):
    if np.isnan(a) and np.isnan(b):
        return True
    if np.isinf(a) or np.isinf(b):
        return a == b
    return abs(a - b) <= TOL * max(1.0, abs(a), abs(b))


def call2(f):
    """both formats of one statistic: returns (nan_format, (values, validity))"""
    return f(float("nan")), f((0, False))


def formats_agree(ctx, name, nanv, pair, desc):
    vals, valid = pair
    nanv, vals, valid = np.asarray(nanv, dtype=float), np.asarray(vals, dtype=float), np.asarray(valid, dtype=bool)
    if nanv.shape != vals.shape or not np.array_equal(np.isnan(nanv), ~valid):
        if nanv.shape == vals.shape:
            bad = tuple(int(x) for x in np.argwhere(np.isnan(nanv) == valid)[0])
            ctx.oracle_fail("%s: cell %s is %s in the NaN format but %s (value %r) in the (values, validity) format" % (
                name, bad, "NaN" if np.isnan(nanv[bad]) else "a value", "valid" if valid[bad] else "missing", vals[bad]), desc,
                cls="C18-%s-formats-disagree" % name)
        else:
            ctx.oracle_fail("%s: formats have shapes %s / %s" % (name, nanv.shape, vals.shape), desc, cls="C18-formats")
        return False
    ok = ~np.isnan(nanv)
    if not np.allclose(nanv[ok], vals[ok], rtol=0, atol=0):
        ctx.oracle_fail("%s: values differ between the two formats" % name, desc, cls="C18-formats")
        return False
    return True


def check(ctx, case, reqs, pend):
    from catii import xcube
    from fractions import Fraction
    R = lambda x: [Fraction(float(x)).numerator, Fraction(float(x)).denominator]
    dense, N, K = case["dense"], case["N"], case["K"]
    if not dense:
        return
    ishape = tuple(int(d.max(initial=0)) + 1 for d in dense)
    xc = xcube([d.astype(np.int64) for d in dense], interacting_shape=ishape)
    rows_of = cell_rows(dense, ishape)
    fv = case["fact_vals"].astype(float)
    fk = case["fact_valid"]
    w = case["weights"]
    wv = None if w is None else w[1].astype(float)
    ign = case["ignore"]
    fa = A.fact_arg(case)
    wa = None if w is None else wv.copy()
    if case.get("readonly"):
        # the caller's arrays are read-only (a memory map, a broadcast, flags.writeable = False): every statistic
        # still has to be computed - and cannot be computed by writing into them
        for arr in (list(fa) if isinstance(fa, tuple) else [fa]) + ([wa] if wa is not None else []):
            arr.flags.writeable = False
        ctx.hit("readonly_arguments")
    cols = [None] if K is None else list(range(K))
    col = lambda a, c: a if c is None else a[:, c]
    desc0 = A.small_desc(case)

    def at(arr, cell, c, extra=()):
        return arr[cell + (() if c is None else (c,)) + extra]

    # ---------------- stddev ----------------
    name = "stddev"
    ctx.case(dict(desc0, stat=name), nontrivial=any(len(r) >= 2 for r in rows_of.values()))
    ctx.hit(name + ("/weighted" if w is not None else ""))
    try:
        nanv, pair = call2(lambda r: xc.stddev(fa, weights=wa, ignore_missing=ign, return_missing_as=r))
    except Exception as e:
        ctx.oracle_fail("stddev raised %s: %s" % (type(e).__name__, str(e)[:80]), dict(desc0, stat=name), cls="C18-stddev-raises")
        nanv = None
    if nanv is not None and formats_agree(ctx, name, nanv, pair, dict(desc0, stat=name)):
        nanv = np.asarray(nanv, dtype=float)
        for cell, rows in rows_of.items():
            for c in cols:
                x, ok = col(fv, c)[rows], col(fk, c)[rows]
                xs = x[ok]
                ws = None if wv is None else wv[rows][ok]
                missing = len(xs) < 2 or (not ign and not ok.all())
                got = at(nanv, cell, c)
                if missing:
                    if not np.isnan(got):
                        ctx.oracle_fail("stddev cell %s col %s = %r but the cell has %d valid of %d rows (%s)" % (
                            cell, c, got, len(xs), len(rows), "ignore" if ign else "propagate"), dict(desc0, stat=name),
                            cls="C18-stddev-missing-rule")
                    continue
                if ws is None:
                    exp = float(np.std(xs, ddof=1))
                else:
                    if ws.sum() == 0:
                        continue
                    m = float((ws * xs).sum() / ws.sum())
                    n = len(xs)
                    exp = float(np.sqrt(((ws * (xs - m) ** 2).sum() / ws.sum()) * (n / (n - 1))))
                if not close(float(got), exp):
                    ctx.oracle_fail("stddev cell %s col %s = %r, textbook %r" % (cell, c, float(got), exp), dict(desc0, stat=name),
                                    cls="C18-stddev-value")
                if len(reqs) < 400:
                    reqs.append({"op": "stats", "kind": "var", "weighted": ws is not None,
                                 "xs": [[R(a), R(1.0 if ws is None else b)] for a, b in zip(xs, xs if ws is None else ws)]})
                    pend.append((dict(desc0, stat="stddev", cell=list(cell)), "var", float(got) ** 2))
    # ---------------- quantile ----------------
    for p in (0.0, 0.1, 0.25, 0.5, 0.9, 1.0):
        name = "quantile"
        d = dict(desc0, stat=name, p=p)
        ctx.case(d, nontrivial=any(len(r) >= 2 for r in rows_of.values()))
        ctx.hit(name + ("/weighted" if w is not None else ""))
        try:
            nanv, pair = call2(lambda r: xc.quantile(fa, p, weights=wa, ignore_missing=ign, return_missing_as=r))
        except Exception as e:
            ctx.oracle_fail("quantile(p=%s) raised %s: %s" % (p, type(e).__name__, str(e)[:80]), d, cls="C18-quantile-raises")
            continue
        if not formats_agree(ctx, name, nanv, pair, d):
            continue
        nanv = np.asarray(nanv, dtype=float)
        scaled = None
        if w is not None:
            try:
                # all weights times 4, or times 2^-40 (weights normalised over a huge population are this small)
                factor = 4.0 if p in (0.0, 0.25, 0.9) else 2.0 ** -40
                scaled = np.asarray(xc.quantile(fa, p, weights=wa * factor, ignore_missing=ign), dtype=float)
            except Exception:
                scaled = None
        for cell, rows in rows_of.items():
            for c in cols:
                x, ok = col(fv, c)[rows], col(fk, c)[rows]
                xs = x[ok]
                got = float(at(nanv, cell, c))
                missing = len(xs) == 0 or (not ign and not ok.all())
                if missing:
                    if not np.isnan(got):
                        ctx.oracle_fail("quantile(p=%s) cell %s col %s = %r but the cell has %d valid of %d rows (%s)" % (
                            p, cell, c, got, len(xs), len(rows), "ignore" if ign else "propagate"), d,
                            cls="C18-quantile-missing-rule" + ("-weighted" if w is not None else ""))
                    continue
                if w is None:
                    exp = float(np.quantile(xs, p))
                    if not close(got, exp):
                        ctx.oracle_fail("quantile(p=%s) cell %s col %s = %r, numpy.quantile of its rows %r" % (p, cell, c, got, exp), d,
                                        cls="C18-quantile-value")
                else:
                    ws = wv[rows][ok]
                    if ws.sum() == 0:
                        continue
                    if np.isnan(got) or got < xs.min() - 1e-9 or got > xs.max() + 1e-9:
                        ctx.oracle_fail("weighted quantile(p=%s) cell %s col %s = %r outside [min, max] = [%r, %r] of its valid values" % (
                            p, cell, c, got, float(xs.min()), float(xs.max())), d, cls="C18-wquantile-range")
                    if len(reqs) < 400:
                        # ties between equal values are ordered by NumPy's default (unstable) argsort in the real code and
                        # the weighted interpolation depends on that order: hand the model the rows in the same order
                        a_all = np.where(ok, x, np.nan)
                        ind = a_all.argsort()
                        ind = ind[~np.isnan(a_all[ind])]
                        xo, wo = x[ind], wv[rows][ind]
                        reqs.append({"op": "stats", "kind": "wquantile", "p": R(p),
                                     "xs": [[R(a), R(b)] for a, b in zip(xo, wo)]})
                        pend.append((dict(d, cell=list(cell)), "wquantile", got))
                    if scaled is not None and not close(got, float(at(scaled, cell, c))):
                        ctx.oracle_fail("weighted quantile(p=%s) cell %s changes from %r to %r when all weights are multiplied by 4 or 2^-40" % (
                            p, cell, got, float(at(scaled, cell, c))), d, cls="C18-wquantile-scale")
    # ---------------- min / max (one-column facts; float, int, datetime64) ----------------
    if K is None:
        for kind in ("float", "int", "datetime", "datetime_nat"):
            if kind == "float":
                vals, arg = fv, fa
            elif kind == "int":
                vals = np.round(fv * 8).astype(np.int64)
                arg = (vals.copy(), fk.copy())
            elif kind == "datetime":
                vals = (np.datetime64("2020-01-01") + np.round(fv * 8).astype("timedelta64[D]"))
                arg = (vals.copy(), fk.copy())
            else:
                # the documented single-array form of a datetime fact: missing rows are NaT
                vals = (np.datetime64("2020-01-01") + np.round(fv * 8).astype("timedelta64[D]"))
                arg = vals.copy()
                arg[~fk] = np.datetime64("NaT")
            for opn in ("min", "max"):
                name = opn + "/" + kind
                d = dict(desc0, stat=name)
                ctx.case(d, nontrivial=any(len(r) >= 2 for r in rows_of.values()))
                ctx.hit(name)
                null = (np.datetime64("NaT"), False) if kind.startswith("datetime") else (0, False)
                try:
                    ov, ok_out = getattr(xc, opn)(arg, ignore_missing=ign, return_missing_as=null)
                    if kind == "datetime_nat":
                        # the in-place report (NaT where missing) must describe the same cells and values
                        inplace = getattr(xc, opn)(arg, ignore_missing=ign, return_missing_as=np.datetime64("NaT"))
                        if not np.array_equal(np.isnat(inplace), ~np.asarray(ok_out, dtype=bool)) or \
                                not np.array_equal(inplace[np.asarray(ok_out, dtype=bool)], ov[np.asarray(ok_out, dtype=bool)]):
                            ctx.oracle_fail("%s: the NaT-in-place report and the (values, validity) report disagree" % name, d,
                                            cls="C18-minmax-formats")
                except Exception as e:
                    ctx.oracle_fail("%s raised %s: %s" % (name, type(e).__name__, str(e)[:80]), d, cls="C18-minmax-raises")
                    continue
                for cell, rows in rows_of.items():
                    x, ok = vals[rows], fk[rows]
                    xs = x[ok]
                    missing = len(xs) == 0 or (not ign and not ok.all())
                    if bool(ok_out[cell]) == missing:
                        ctx.oracle_fail("%s cell %s reported %s but has %d valid of %d rows (%s)" % (
                            name, cell, "valid" if ok_out[cell] else "missing", len(xs), len(rows), "ignore" if ign else "propagate"),
                            d, cls="C18-minmax-missing-rule")
                    elif not missing:
                        exp = xs.min() if opn == "min" else xs.max()
                        if ov[cell] != exp:
                            ctx.oracle_fail("%s cell %s = %r, expected %r" % (name, cell, ov[cell], exp), d, cls="C18-minmax-value")
    # ---------------- covariance / correlation (several columns) ----------------
    if K is not None and K >= 2:
        for name in ("covariance", "corrcoef"):
            weighted = (w is not None and name == "covariance")
            d = dict(desc0, stat=name)
            ctx.case(d, nontrivial=any(len(r) >= 2 for r in rows_of.values()))
            ctx.hit(name + ("/weighted" if weighted else ""))
            try:
                if name == "covariance":
                    nanv, pair = call2(lambda r: xc.covariance(fa, weights=wa, ignore_missing=ign, return_missing_as=r))
                else:
                    nanv, pair = call2(lambda r: xc.corrcoef(fa, ignore_missing=ign, return_missing_as=r))
            except Exception as e:
                ctx.oracle_fail("%s raised %s: %s" % (name, type(e).__name__, str(e)[:80]), d, cls="C18-%s-raises" % name)
                continue
            if not formats_agree(ctx, name, nanv, pair, d):
                continue
            nanv = np.asarray(nanv, dtype=float)
            for cell, rows in rows_of.items():
                x, ok = fv[rows], fk[rows]
                ws_all = None if not weighted else wv[rows]
                for i in range(K):
                    for j in range(K):
                        got = float(nanv[cell + (i, j)])
                        if ign:
                            keep = ok.all(axis=1)
                        else:
                            keep = np.ones(len(rows), dtype=bool)
                            if not (ok[:, i].all() and ok[:, j].all()):
                                if not np.isnan(got):
                                    ctx.oracle_fail("%s cell %s entry (%d,%d) = %r although a value of those columns is missing "
                                                    "(propagate)" % (name, cell, i, j, got), d, cls="C18-%s-missing-rule" % name)
                                continue
                        xi, xj = x[keep][:, i], x[keep][:, j]
                        if len(xi) < 2:
                            if not np.isnan(got):
                                ctx.oracle_fail("%s cell %s entry (%d,%d) = %r with %d complete rows" % (name, cell, i, j, got, len(xi)),
                                                d, cls="C18-%s-missing-rule" % name)
                            continue
                        with warnings.catch_warnings():
                            warnings.simplefilter("ignore")
                            if name == "covariance":
                                aw = None if ws_all is None else ws_all[keep]
                                if aw is not None and aw.sum() == 0:
                                    continue
                                exp = float(np.cov(np.vstack([xi, xj]), aweights=aw)[0, 1])
                            else:
                                if xi.std() == 0 or xj.std() == 0:
                                    continue
                                exp = float(np.corrcoef(xi, xj)[0, 1])
                        if np.isnan(exp):
                            continue
                        if not close(got, exp):
                            ctx.oracle_fail("%s cell %s entry (%d,%d) = %r, NumPy on the rows of the cell gives %r" % (
                                name, cell, i, j, got, exp), d, cls="C18-%s-value%s" % (name, "-weighted" if weighted else ""))


def minmax_trailing(ctx):
    """min / max with empty cells AFTER the last occupied one (explicit shapes larger than the data, or simply no row in the
    last categories), the extreme value sitting in the LAST row of its cell: facts increasing (max) and decreasing (min) in
    row order; float / int / datetime facts, both policies; per-cell brute force"""
    from catii import xcube
    rng = np.random.default_rng(ctx.seed + 181)
    fixed = [([np.array([0, 1, 1, 1]), np.array([1, 0, 0, 0])], (2, 2))]
    for _ in range(ctx.n(30)):
        k = int(rng.integers(1, 3))
        N = int(rng.integers(3, 14))
        ext = [int(rng.integers(2, 4)) for _ in range(k)]
        dims = [rng.integers(0, max(1, e - int(rng.integers(0, 2))), size=N) for e in ext]
        shape = tuple(e + int(rng.integers(0, 3)) for e in ext)
        fixed.append((dims, shape))
    for dims, shape in fixed:
        N = len(dims[0])
        for kind in ("float", "int", "datetime"):
            for opn, base in (("max", np.arange(N)), ("min", np.arange(N)[::-1].copy())):
                for ign in (True, False):
                    ok = np.ones(N, dtype=bool)
                    if N > 3 and rng.random() < 0.5:
                        ok[int(rng.integers(0, N - 1))] = False
                    if kind == "float":
                        vals = base.astype(float)
                        arg = vals.copy()
                        arg[~ok] = np.nan
                        null = (0, False)
                    elif kind == "int":
                        vals = base.astype(np.int64)
                        arg = (vals.copy(), ok.copy())
                        null = (0, False)
                    else:
                        vals = np.datetime64("2021-03-01") + base.astype("timedelta64[D]")
                        arg = (vals.copy(), ok.copy())
                        null = (np.datetime64("NaT"), False)
                    desc = {"minmax_trailing": opn, "kind": kind, "dims": [d.tolist() for d in dims], "shape": list(shape),
                            "ignore": ign, "valid": ok.tolist()}
                    ctx.case(desc, nontrivial=True)
                    ctx.hit("minmax_trailing:" + kind)
                    try:
                        ov, okout = getattr(xcube(dims, interacting_shape=shape), opn)(arg, ignore_missing=ign, return_missing_as=null)
                    except Exception as e:
                        ctx.oracle_fail("%s/%s raised %s: %s" % (opn, kind, type(e).__name__, str(e)[:80]), desc, cls="C18-minmax-raises")
                        continue
                    for cell in np.ndindex(*shape):
                        rows = np.nonzero(np.all([d == c for d, c in zip(dims, cell)], axis=0))[0]
                        xs = vals[rows][ok[rows]]
                        missing = len(xs) == 0 or (not ign and not ok[rows].all())
                        if bool(okout[cell]) == missing:
                            ctx.oracle_fail("%s/%s cell %s reported %s but has %d valid of %d rows" % (
                                opn, kind, cell, "valid" if okout[cell] else "missing", len(xs), len(rows)), desc, cls="C18-minmax-missing-rule")
                            break
                        if not missing:
                            exp = xs.max() if opn == "max" else xs.min()
                            if ov[cell] != exp:
                                ctx.oracle_fail("%s/%s cell %s = %r, the rows of the cell give %r" % (opn, kind, cell, ov[cell], exp), desc,
                                                cls="C18-minmax-value")
                                break


def missing_weights(ctx):
    """The rule of C04 for these statistics when a WEIGHT is missing: a row whose weight is missing is a row that is
    missing - whatever placeholder the caller left under the False validity (NaN, a large number, a negative sentinel).
    Metamorphic on the real code: statistic(facts, weights=(g, wvalid)) must mark the same cells missing and report the same
    values as statistic(facts with those rows marked missing in every column, weights = g with the placeholders replaced by
    1.0, all valid) - under both policies, in both report formats."""
    from catii import xcube
    rng = ctx.rng
    for rep in range(ctx.n(18)):
        N = rng.choice([5, 8, 12])
        K = rng.choice([None, None, 2, 3])
        dims = [np.array([rng.randrange(2) for _ in range(N)], dtype=np.int64) for _ in range(rng.choice([0, 1, 1, 2]))]
        shape = (N,) if K is None else (N, K)
        fv = np.array([rng.choice([0.5, 1.0, 2.0, 3.5, -1.0, 4.0]) for _ in range(int(np.prod(shape)))], dtype=float).reshape(shape)
        fok = np.array([rng.random() < 0.85 for _ in range(int(np.prod(shape)))], dtype=bool).reshape(shape)
        g = np.array([rng.choice([0.5, 1.0, 2.0, 3.0]) for _ in range(N)], dtype=float)
        wok = np.array([rng.random() < 0.75 for _ in range(N)], dtype=bool)
        if wok.all():
            wok[rng.randrange(N)] = False
        placeholder = (float("nan"), 777.0, -999.0, -1.0)[rep % 4]
        gp = g.copy()
        gp[~wok] = placeholder
        g1 = g.copy()
        g1[~wok] = 1.0
        fok2 = fok & (wok if K is None else wok[:, None])
        stats = ["stddev", "quantile"] + (["covariance"] if K is not None else [])
        for stat in stats:
            for ign in (False, True):
                desc = {"missing_weights": True, "stat": stat, "ignore_missing": ign, "N": N, "K": K, "dims": [d.tolist() for d in dims],
                        "facts": fv.tolist(), "fact_valid": fok.tolist(), "weights": [None if np.isnan(x) else x for x in gp.tolist()],
                        "weight_valid": wok.tolist()}
                ctx.case(desc, nontrivial=True)
                ctx.hit("missing_weights:%s:%s" % (stat, "nan" if np.isnan(placeholder) else placeholder))

                def run(facts, weights, r):
                    xc = xcube([d.copy() for d in dims])
                    if stat == "quantile":
                        return xc.quantile(facts, 0.5, weights=weights, ignore_missing=ign, return_missing_as=r)
                    return getattr(xc, stat)(facts, weights=weights, ignore_missing=ign, return_missing_as=r)
                try:
                    a_nan, a_pair = call2(lambda r: run((fv.copy(), fok.copy()), (gp.copy(), wok.copy()), r))
                except Exception as e:
                    ctx.oracle_fail("%s with a missing weight (placeholder %r, ignore_missing=%s) raised %s: %s" % (
                        stat, placeholder, ign, type(e).__name__, str(e)[:80]), desc, cls="C18-%s-raises" % stat)
                    continue
                try:
                    b_nan, b_pair = call2(lambda r: run((fv.copy(), fok2.copy()), g1.copy(), r))
                except Exception as e:
                    ctx.hit("missing_weights_reference_raised:" + type(e).__name__)
                    continue
                if not formats_agree(ctx, stat, a_nan, a_pair, desc):
                    continue
                a_nan, b_nan = np.asarray(a_nan, dtype=float), np.asarray(b_nan, dtype=float)
                if a_nan.shape != b_nan.shape or not np.array_equal(np.isnan(a_nan), np.isnan(b_nan)):
                    ctx.oracle_fail("%s (ignore_missing=%s): with weights missing at rows %s (placeholder %r) the missing cells are %s; "
                                    "with those rows marked missing instead they are %s" % (
                                        stat, ign, np.nonzero(~wok)[0].tolist(), placeholder, np.isnan(a_nan).astype(int).tolist(),
                                        np.isnan(b_nan).astype(int).tolist()), desc, cls="C18-%s-missing" % stat)
                    continue
                ok = ~np.isnan(a_nan)
                if not all(close(float(x), float(y)) for x, y in zip(a_nan[ok].ravel(), b_nan[ok].ravel())):
                    ctx.oracle_fail("%s (ignore_missing=%s): a missing weight (placeholder %r) changes the values of cells: %s vs %s" % (
                        stat, ign, placeholder, a_nan.tolist(), b_nan.tolist()), desc, cls="C18-%s-value" % stat)


def dimensionless(ctx):
    """a cube WITHOUT dimensions has one cell holding every row: each statistic there must be what the same call gives on a
    cube with one dimension of a single category (whose cells this check compares with the textbook statistic elsewhere) -
    for facts of one and several columns, NaN-marked or (values, validity), weights none / scalar / array / (values, validity),
    both policies, both report formats"""
    from catii import xcube
    rng = ctx.rng
    for rep in range(ctx.n(6)):
        N = rng.choice([1, 2, 5, 9])
        K = rng.choice([None, 2])
        shape = (N,) if K is None else (N, K)
        fv = np.array([rng.choice([0.5, 1.0, 2.0, 3.5, -1.0, 4.0]) for _ in range(int(np.prod(shape)))], dtype=float).reshape(shape)
        fok = np.array([rng.random() < 0.85 for _ in range(int(np.prod(shape)))], dtype=bool).reshape(shape)
        g = np.array([rng.choice([0.5, 1.0, 2.0, 3.0]) for _ in range(N)], dtype=float)
        wok = np.array([rng.random() < 0.85 for _ in range(N)], dtype=bool)
        one = np.zeros(N, dtype=np.int64)
        facts = {"nan": np.where(fok, fv, np.nan), "pair": (fv.copy(), fok.copy())}
        weights = {"none": None, "scalar": 2.0, "array": g.copy(), "pair": (g.copy(), wok.copy())}
        stats = ["stddev", "quantile", "quantile0", "quantile1"] + (["min", "max"] if K is None else ["covariance", "corrcoef"])
        for stat in stats:
            for fname, fa in facts.items():
                for wname, wa in weights.items():
                    if stat in ("min", "max", "corrcoef") and wa is not None:
                        continue
                    for ign in (False, True):
                        desc = {"dimensionless": True, "stat": stat, "facts": fname, "weights": wname, "ignore_missing": ign, "N": N, "K": K,
                                "fact_vals": fv.tolist(), "fact_valid": fok.tolist(), "w": g.tolist(), "w_valid": wok.tolist()}
                        ctx.case(desc, nontrivial=N >= 2)
                        ctx.hit("dimensionless:%s:%s" % (stat.rstrip("01"), wname))

                        def call(cube, r):
                            if stat.startswith("quantile"):
                                p = {"quantile": 0.5, "quantile0": 0.0, "quantile1": 1.0}[stat]
                                return cube.quantile(fa, p, weights=wa, ignore_missing=ign, return_missing_as=r)
                            if stat in ("min", "max"):
                                return getattr(cube, stat)(fa, ignore_missing=ign, return_missing_as=r)
                            if stat == "corrcoef":
                                return cube.corrcoef(fa, ignore_missing=ign, return_missing_as=r)
                            return getattr(cube, stat)(fa, weights=wa, ignore_missing=ign, return_missing_as=r)
                        try:
                            ref_nan, ref_pair = call2(lambda r: call(xcube([one]), r))
                        except Exception as e:
                            ctx.hit("dimensionless_reference_raised:" + type(e).__name__)
                            continue
                        try:
                            got_nan, got_pair = call2(lambda r: call(xcube([]), r))
                        except Exception as e:
                            ctx.oracle_fail("%s on a cube without dimensions (facts %s, weights %s, ignore_missing=%s) raised %s: %s - on a "
                                            "cube with one single-category dimension the same call returns %s" % (
                                                stat, fname, wname, ign, type(e).__name__, str(e)[:60], str(np.asarray(ref_nan).tolist())[:40]),
                                            desc, cls="C18-%s-raises" % stat.rstrip("01"))
                            continue
                        if not formats_agree(ctx, stat, got_nan, got_pair, desc):
                            continue
                        a, b = np.asarray(got_nan, dtype=float).reshape(-1), np.asarray(ref_nan, dtype=float).reshape(-1)
                        if a.shape != b.shape or not np.array_equal(np.isnan(a), np.isnan(b)):
                            ctx.oracle_fail("%s without dimensions marks %s missing, with one single-category dimension %s" % (
                                stat, np.isnan(a).astype(int).tolist(), np.isnan(b).astype(int).tolist()), desc, cls="C18-%s-missing" % stat.rstrip("01"))
                        elif not all(close(float(x), float(y)) for x, y in zip(a[~np.isnan(a)], b[~np.isnan(b)])):
                            ctx.oracle_fail("%s without dimensions = %s, with one single-category dimension %s" % (stat, a.tolist(), b.tolist()),
                                            desc, cls="C18-%s-value" % stat.rstrip("01"))


def pooled_statistics(ctx):
    """the same statistics with the cube's worker pool engaged (a dimension with several columns gives several sub-cubes
    filled by different workers through the SAME xfunc object): each cell must still hold the statistic of its own rows.
    Schedules: seeded line-level interleavings and a real ThreadPool; the per-cell expectation is NumPy on the cell's rows."""
    import pool_common as P
    from catii import xcube
    rng = np.random.default_rng(ctx.seed + 18)
    for rep in range(ctx.n(2)):
        N, cols = 60, 4
        A = rng.integers(0, 2, size=(N, cols))
        B = rng.integers(0, 2, size=N)
        x = np.round(rng.normal(size=N) * 8) / 8
        w = rng.choice([0.5, 1.0, 2.0], size=N)
        for weighted in (False, True):
            schedules = [("seeded", P.SeededInterleavingPool(int(rng.integers(10**6)), 0.5)) for _ in range(3)]
            from multiprocessing.pool import ThreadPool
            schedules.append(("threadpool", ThreadPool))
            for sname, pool in schedules:
                cube = xcube([A, B], interacting_shape=(2, 2))
                cube.parallel = True
                cube.poolsize = 4
                cube.pool_class = pool
                desc = {"pooled_stddev": True, "weighted": weighted, "schedule": sname, "N": N, "columns": cols}
                ctx.case(desc, nontrivial=True)
                ctx.hit("pooled_stddev:" + sname)
                got = P.run_with_timeout(lambda: cube.stddev(x, weights=(w if weighted else None), ignore_missing=True,
                                                             return_missing_as=(0, False)), 120)
                if got[0] != "ok":
                    ctx.oracle_fail("pooled stddev (%s) %s" % (sname, "timed out" if got[0] == "timeout" else "raised %r" % (got[1],)), desc,
                                    cls="C18-stddev-raises")
                    continue
                vals, ok = got[1]
                bad = None
                for c in range(cols):
                    for a in (0, 1):
                        for b in (0, 1):
                            rows = np.nonzero((A[:, c] == a) & (B == b))[0]
                            if len(rows) < 2:
                                continue
                            if weighted:
                                ww = w[rows]
                                m = np.average(x[rows], weights=ww)
                                var = np.sum(ww * (x[rows] - m) ** 2) / np.sum(ww) * len(rows) / (len(rows) - 1)
                                exp = float(np.sqrt(var))
                            else:
                                exp = float(np.std(x[rows], ddof=1))
                            if not ok[c, a, b] or not close(float(vals[c, a, b]), exp):
                                bad = (c, a, b, float(vals[c, a, b]), exp)
                if bad:
                    ctx.oracle_fail("stddev with the pool engaged (%s): block %d cell (%d, %d) = %r, the rows of the cell give %r" % ((sname,) + bad),
                                    desc, cls="C18-stddev-value")
                    break


def run(ctx):
    core.load_catii()
    warnings.simplefilter("ignore")
    reqs, pend = [], []
    nwide = ctx.n(4, 80)
    for it in range(ctx.n(30, 1500) + nwide):
        if it < nwide:      # extents straddling the narrow coordinate types of the array cube
            while True:
                case = A.gen_case(ctx.rng, wide="u16" if (ctx.tier == "thorough" and it % 8 == 7) else "u8")
                if it % 2 or case["K"]:
                    break
            ctx.hit("wide_extents")
        else:
            case = A.gen_case(ctx.rng, multi_axis=False, k=ctx.rng.choice([1, 1, 2, 3]), N=ctx.rng.choice([1, 2, 4, 7, 10, 14]))
        if it % 7 in (3, 5):      # numerically adversarial facts: a large offset with a small spread, or constant non-dyadic cells
            if it >= nwide:       # few cells, many rows each: the spread inside a cell is what the statistic must see
                case = A.gen_case(ctx.rng, multi_axis=False, k=1, N=14)
            shp = case["fact_vals"].shape
            n = int(np.prod(shp))
            if it % 7 == 3:
                case["fact_vals"] = (1.7e9 + np.array([ctx.rng.randrange(0, 10) for _ in range(n)], dtype=float)).reshape(shp)
            else:
                case["fact_vals"] = np.array([ctx.rng.choice([0.1, 0.1, 0.1, 0.3]) for _ in range(n)], dtype=float).reshape(shp)
            if case["fact_form"] == "pair_int":
                case["fact_form"] = "pair"
            ctx.hit("ill_conditioned_facts")
        w = case["weights"]
        if w is not None:
            if w[0] == "scalar":
                case["weights"] = None
            else:   # positive weights, all valid (weight validity is C03/C04's subject); every fifth case tiny ones
                tiny = 2.0 ** -40 if it % 5 == 2 else 1.0
                if tiny != 1.0:
                    ctx.hit("tiny_weights")
                case["weights"] = ("array", tiny * np.array([ctx.rng.choice([0.5, 1.0, 2.0, 3.0]) for _ in range(case["N"])]),
                                   np.ones(case["N"], dtype=bool))
        if case["fact_form"] == "pair_int":
            case["fact_form"] = "pair"
        case["readonly"] = it % 3 == 1
        check(ctx, case, reqs, pend)
    # several fact columns with DIFFERENT missing patterns in cells of two and three rows (fewer than two complete rows, yet
    # column pairs without a missing value): on every run, both policies, weighted and not
    for rep in range(4):
        case = A.gen_case(ctx.rng, multi_axis=False, k=1, N=5)
        case["dense"] = [np.array([0, 0, 1, 1, 1], dtype=np.int64)]
        case["commons"] = [int(case["commons"][0]) if case["commons"][0] in (0, 1) else 0]
        case["N"], case["K"] = 5, 3
        case["fact_vals"] = np.array([[1.0, 2.0, 0.5], [3.0, 1.0, 4.0], [2.0, 2.5, 1.0], [0.5, 4.0, 3.0], [4.0, 1.0, 2.0]])
        fk = np.ones((5, 3), dtype=bool)
        fk[0, 2] = False          # cell 0: two rows, one incomplete -> one complete row; columns 0 and 1 are whole
        fk[2, 0] = False
        fk[3, 1] = False          # cell 1: three rows, one complete
        case["fact_valid"] = fk
        case["fact_form"] = "pair" if rep % 2 else "nan"
        case["ignore"] = rep >= 2
        case["weights"] = None if rep % 2 == 0 else ("array", np.array([1.0, 2.0, 0.5, 1.0, 3.0]), np.ones(5, dtype=bool))
        case["modes"] = case.get("modes", ["most"])[:1]
        ctx.hit("columns_with_different_missing_patterns")
        check(ctx, case, reqs, pend)
    pooled_statistics(ctx)
    minmax_trailing(ctx)
    missing_weights(ctx)
    dimensionless(ctx)
    if ctx.oracle_only:
        return
    from fractions import Fraction
    for (desc, kind, got), m in zip(pend, ctx.model.run(reqs)):
        if m is None:
            ctx.corr_fail("%s: model says missing, impl %r" % (kind, got), desc)
            continue
        mv = float(Fraction(m[0], m[1]))
        if not close(float(got), mv):
            ctx.corr_fail("%s: impl %r, model %r" % (kind, got, mv), desc)


def replay(ctx, rep):
    return True
