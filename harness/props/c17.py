"""C17 — aggregations are pure: inputs untouched, no hidden state between calls."""
import itertools
import pickle

import numpy as np

import agg_common as A
import core
import gen_cube as G
import idx_common as I
from props import c13, c16

ID = "C17"
LEAN_MODULES = ["CatiiProps.C17"]
USES_TRANSLATOR = ['purity', 'purity_methods', 'driver']
USES_MODEL = False
RULE = ("every aggregate of C03/C18 on both cube types x every argument form (NaN-marked / (values, validity) with garbage "
        "under False / int64; weights none / scalar / array / pair): every argument buffer (fact values incl. those hidden "
        "under a False validity, validity, weights, dimension arrays, index entries) byte-compared before and after "
        "construction + calculate, results checked not to share memory with arguments; calculate(list)[i] == "
        "calculate([list[i]])[0] for all permutations of <=3 aggregates and for lists naming one function object twice, a repeated calculate with the same objects, the "
        "same aggregate-function object re-used on another cube; non-mutating index methods leave receiver and arguments "
        "byte-identical; a cube evaluated before one of its dimensions is updated in place agrees afterwards with a never-evaluated and a new cube over the same objects. Non-trivial = an argument with missing positions; distinct by (case, aggregate, form)")
ASSUMPTIONS = ["global interpreter state (warnings filters, tracing dictionaries) is observed only through results"]


def snap(obj):
    """deep byte snapshot of an argument (array, tuple of arrays, scalar, index, dict, list)"""
    if obj is None:
        return None
    if isinstance(obj, tuple):
        return tuple(snap(o) for o in obj)
    if isinstance(obj, np.ndarray):
        return (obj.dtype.str, obj.shape, obj.tobytes())
    if hasattr(obj, "common") and hasattr(obj, "shape") and isinstance(obj, dict):
        return I.snapshot(obj)
    if isinstance(obj, dict):
        return sorted((repr(k), snap(v)) for k, v in obj.items())
    if isinstance(obj, list):
        return [snap(o) for o in obj]
    return repr(obj)


def arrays_of(obj):
    if isinstance(obj, np.ndarray):
        return [obj]
    if isinstance(obj, (tuple, list)):
        return [a for o in obj for a in arrays_of(o)]
    if isinstance(obj, dict):
        return [a for o in obj.values() for a in arrays_of(o)]
    return []


class CtorMutates(Exception):
    pass


def make_funcs(kind, case):
    from catii import ffuncs, xfuncs
    mod = ffuncs if kind == "ccube" else xfuncs
    pre = "ffunc_" if kind == "ccube" else "xfunc_"
    fa, w, ign = A.fact_arg(case), A.weights_arg(case), case["ignore"]
    specs = [("count", (w, None, ign, float("nan")), [w]), ("valid_count", (fa, w, ign, (0, False)), [fa, w]),
             ("sum", (fa, w, ign, float("nan")), [fa, w]), ("mean", (fa, w, ign, float("nan")), [fa, w])]
    if kind == "xcube":
        specs.append(("stddev", (fa, w, ign, float("nan")), [fa, w]))
        if case["K"] is not None and case["K"] >= 2:
            specs.append(("covariance", (fa, w, ign, float("nan")), [fa, w]))
            specs.append(("corrcoef", (fa, None, ign, float("nan")), [fa]))
        specs.append(("quantile", (fa, 0.5, w, ign, float("nan")), [fa, w]))
        if case["K"] is None:
            # min / max share one fill routine; both policies, whatever the case's own policy is
            specs.append(("max:ignore", (fa, True, float("nan")), [fa]))
            specs.append(("min:propagate", (fa, False, float("nan")), [fa]))
            specs.append(("min:ignore", (fa, True, float("nan")), [fa]))
    out = []
    for name, args, inputs in specs:
        before = snap(inputs)
        try:
            f = getattr(mod, pre + name.split(":")[0])(*args)
        except Exception as e:
            out.append((name, None, inputs, before, e))
            continue
        if snap(inputs) != before:      # found HERE, so that the aggregate named is the one whose constructor did it
            out.append((name, None, inputs, before, CtorMutates()))
            continue
        out.append((name, f, inputs, before, None))
    return out


def same(a, b):
    return c16.flat_bytes(a) == c16.flat_bytes(b)


def check(ctx, case):
    from catii import ccube, xcube
    dense, commons = case["dense"], case["commons"]
    for kind in ("ccube", "xcube"):
        idxs = [G.make_index(d, c) for d, c in zip(dense, commons)]
        xdims = [d.astype(np.int64) for d in dense]
        dims_before = snap(idxs) if kind == "ccube" else snap(xdims)
        ishape = tuple(int(max([int(v) for v in np.unique(d).tolist()] + [c])) + 1 for d, c in zip(dense, commons))
        mk = (lambda: ccube(idxs, interacting_shape=ishape)) if kind == "ccube" else (lambda: xcube(xdims, interacting_shape=ishape))
        made = make_funcs(kind, case)
        for name, f, inputs, before, err in made:
            desc = A.small_desc(case, {"cube": kind, "func": name})
            has_missing = not bool(np.all(case["fact_valid"]))
            ctx.case(desc, nontrivial=has_missing)
            ctx.hit("%s.%s" % (kind, name))
            if isinstance(err, CtorMutates):
                ctx.oracle_fail("%s_%s(...) changed one of its arguments (constructor)" % (kind, name), desc, cls="C17-input-mutated")
                continue
            if err is not None:
                ctx.hit("constructor_raised:" + type(err).__name__)
                continue
            if snap(inputs) != before:
                # the buffers are shared between the aggregates of this case: blame the constructor that was caught doing it
                if not any(isinstance(m[4], CtorMutates) for m in made):
                    ctx.oracle_fail("%s_%s(...): its arguments changed between its construction and its use" % (kind, name), desc,
                                    cls="C17-input-mutated")
                continue
            cube = mk()
            try:
                r1 = cube.calculate([f])
            except Exception as e:
                ctx.hit("calculate_raised:" + type(e).__name__)
                continue
            if snap(inputs) != before:
                ctx.oracle_fail("%s.%s changed one of its arguments during calculate" % (kind, name), desc, cls="C17-input-mutated")
            if (snap(idxs) if kind == "ccube" else snap(xdims)) != dims_before:
                ctx.oracle_fail("%s.%s changed a dimension passed to the cube" % (kind, name), desc, cls="C17-dim-mutated")
            for res in arrays_of(list(r1)):
                for arg in arrays_of(inputs) + (xdims if kind == "xcube" else arrays_of([list(dict.values(ix)) for ix in idxs])):
                    if np.shares_memory(res, arg):
                        ctx.oracle_fail("%s.%s: a result array shares memory with an argument" % (kind, name), desc, cls="C17-result-aliases")
            # repeated calculate with the same objects; the same function object on another cube object
            r2 = cube.calculate([f])
            r3 = mk().calculate([f])
            # ... and on a cube WITHOUT dimensions in between (the grand total goes through other branches of fill)
            try:
                (ccube([]) if kind == "ccube" else xcube([])).calculate([f])
                r4 = mk().calculate([f])
                ctx.hit("reused_after_dimensionless_cube")
                if not same(r1, r4):
                    ctx.oracle_fail("%s.%s: the function object gives a different result on this cube after it was used on a cube "
                                    "without dimensions" % (kind, name), dict(desc, reuse="dimensionless cube in between"),
                                    cls="C17-hidden-state")
            except Exception as e:
                ctx.hit("dimensionless_reuse_raised:" + type(e).__name__)
            if snap(inputs) != before:
                ctx.oracle_fail("%s.%s changed one of its arguments during calculate on a cube without dimensions" % (kind, name), desc,
                                cls="C17-input-mutated")
            if not same(r1, r2) or not same(r1, r3):
                ctx.oracle_fail("%s.%s: a repeated calculate / the re-used function object gives a different result" % (kind, name),
                                desc, cls="C17-hidden-state")
        # several aggregates in one pass, every order (<=3 at a time)
        good = [(n, f) for n, f, _, _, e in made if e is None]
        if len(good) >= 2:
            trio = ctx.rng.sample(good, min(3, len(good)))
            # min / max first, then aggregates that read the same coordinates afterwards: they share what the driver hands out
            mm = [g for g in good if g[0].split(":")[0] in ("max", "min") and g[0].endswith("ignore")]
            if mm and ctx.rng.random() < 0.6:
                rest = [g for g in good if g[0].split(":")[0] not in ("max", "min")]
                trio = [mm[0]] + ctx.rng.sample(rest, min(2, len(rest)))
            try:
                alone = {n: mk().calculate([f])[0] for n, f in trio}
            except Exception:
                alone = None
            if alone is not None:
                for perm in itertools.permutations(trio):
                    ctx.evaluations += 1
                    ctx.hit("together_permutation")
                    try:
                        tog = mk().calculate([f for _, f in perm])
                    except Exception as e:
                        ctx.oracle_fail("%s: calculate of %s together raised %s" % (kind, [n for n, _ in perm], type(e).__name__),
                                        A.small_desc(case, {"cube": kind}), cls="C17-together")
                        continue
                    for (n, _), r in zip(perm, tog):
                        if not same([r], [alone[n]]):
                            ctx.oracle_fail("%s: %s computed together with %s differs from %s computed alone" % (
                                kind, n, [m for m, _ in perm if m != n], n), A.small_desc(case, {"cube": kind, "order": [m for m, _ in perm]}),
                                cls="C17-together")
                # a list that names the same function object more than once: every position is still that aggregate
                for lst in ([trio[0], trio[1], trio[0]], [trio[0], trio[0]], [trio[1], trio[0], trio[0], trio[1]]):
                    ctx.evaluations += 1
                    ctx.hit("together_repeated_object")
                    try:
                        tog = mk().calculate([f for _, f in lst])
                    except Exception as e:
                        ctx.oracle_fail("%s: calculate of %s (one object listed twice) raised %s" % (kind, [n for n, _ in lst], type(e).__name__),
                                        A.small_desc(case, {"cube": kind}), cls="C17-together")
                        continue
                    for pos, ((n, _), r) in enumerate(zip(lst, tog)):
                        if not same([r], [alone[n]]):
                            ctx.oracle_fail("%s: position %d of calculate(%s) - the same function object listed more than once - "
                                            "differs from %s computed alone" % (kind, pos, [m for m, _ in lst], n),
                                            A.small_desc(case, {"cube": kind, "order": [m for m, _ in lst]}), cls="C17-together")
                            break


def index_methods(ctx):
    """non-mutating index methods leave the receiver and their arguments byte-identical"""
    from catii.iindexes import column_stack
    ix, a = I.gen_index(ctx.rng, ndim=ctx.rng.choice([1, 2, 2, 3]))
    before = I.snapshot(ix)
    nd = len(ix.shape)
    calls = [("copy", lambda: ix.copy()), ("__eq__", lambda: ix == ix.copy()), ("validate", lambda: ix.validate(True)),
             ("abscissae", lambda: ix.abscissae), ("sparsity", lambda: ix.sparsity), ("nbytes", lambda: ix.nbytes),
             ("repr", lambda: repr(ix)), ("to_dict", lambda: ix.to_dict()), ("slices1d", lambda: list(ix.slices1d()))]
    if nd <= 2:
        mask = np.array([ctx.rng.random() < 0.5 for _ in range(ix.shape[0])], dtype=bool)
        mapping = {int(v): ctx.rng.randrange(0, 5) for v in set(a.reshape(-1).tolist()) | {int(ix.common)}}
        m0, mk0 = dict(mapping), mask.copy()
        # a caller's mapping that does not mention the common value (nor every present value): unmentioned values keep theirs
        partial = {int(v): ctx.rng.randrange(5, 9) for v in sorted(set(a.reshape(-1).tolist()) - {int(ix.common)})[:2]}
        partial0 = dict(partial)
        other = ix.copy()       # same content, another common value: forces a shift inside column_stack / append
        present = sorted(set(a.reshape(-1).tolist()))
        other.shift_common(ctx.rng.choice([v for v in present if v != ix.common] or [int(ix.common) + 1]))
        other_before = I.snapshot(other)
        calls += [("to_array", lambda: ix.to_array()), ("to_array(mapping)", lambda: ix.to_array(mapping=mapping)),
                  ("filtered", lambda: ix.filtered(mask, int(mask.sum()))), ("reindexed", lambda: ix.reindexed(mapping)),
                  ("reindexed(copy=False)", lambda: ix.reindexed(mapping, copy=False)),
                  ("reindexed(partial mapping)", lambda: ix.reindexed(partial)),
                  ("reindexed(partial mapping, assume_unique)", lambda: ix.reindexed(partial, assume_unique=True)),
                  ("common_rowids", lambda: ix.common_rowids(*([0] if nd == 2 else []))),
                  ("items(force)", lambda: list(ix.items(force=True))), ("to_dict(force)", lambda: ix.to_dict(force=True)),
                  ("column_stack", lambda: column_stack([ix, ix.copy()], new_common=int(ix.common) + 1)),
                  ("column_stack(copy)", lambda: column_stack([ix], copy=True)),
                  ("column_stack(copy, new_common)", lambda: column_stack([ix, ix.copy()], new_common=int(ix.common) + 1, copy=True)),
                  ("column_stack(other common, copy)", lambda: column_stack([other, ix], copy=True)),
                  ("column_stack(other common)", lambda: column_stack([ix, other])),
                  ("column_stack(other common, new_common=None, copy)", lambda: column_stack([ix, other, ix], new_common=None, copy=True)),
                  ("append to a copy", lambda: ix.copy().append(other)),
                  ("update on a copy", lambda: ix.copy().update(dict(other)) if other.shape == ix.shape else None)]
    if nd == 2:
        prec = sorted(set(a.reshape(-1).tolist()) | {int(ix.common)})
        p0 = list(prec)
        calls += [("collapsed", lambda: ix.collapsed(prec)), ("sliced", lambda: ix.sliced(0))]
    for name, fn in calls:
        ctx.evaluations += 1
        ctx.hit("index:" + name)
        try:
            fn()
        except Exception as e:
            ctx.hit("index_raised:%s:%s" % (name, type(e).__name__))
            continue
        if I.snapshot(ix) != before:
            ctx.oracle_fail("iindex.%s changed its receiver" % name, {"index": I.to_json(I.from_json(
                {"shape": list(before[0]), "common": before[1], "entries": []})), "method": name}, cls="C17-index-mutated")
            break
    if nd <= 2 and I.snapshot(other) != other_before:
        ctx.oracle_fail("an index operation changed an operand other than its receiver", {"index": I.to_json(ix), "other": I.to_json(other)},
                        cls="C17-index-mutated")
    if nd <= 2 and (partial != partial0 or list(partial) != list(partial0)):
        ctx.oracle_fail("iindex.reindexed changed the mapping it was given: %s became %s" % (partial0, partial), {"index": I.to_json(ix)},
                        cls="C17-input-mutated")
    if nd <= 2 and (mapping != m0 or not np.array_equal(mask, mk0)):
        ctx.oracle_fail("an index method changed its mapping / mask argument", {"index": I.to_json(ix)}, cls="C17-input-mutated")
    if nd == 2 and prec != p0:
        ctx.oracle_fail("collapsed changed its precedence list", {"index": I.to_json(ix)}, cls="C17-input-mutated")


def count_reuse(ctx):
    """an aggregate-function object that is not bound to row data (count without weights) re-used on cubes with
    different row counts and shapes gives what a fresh object gives"""
    from catii import ccube, xcube, ffuncs, xfuncs
    cases = [G.gen_dims(ctx.rng, k=ctx.rng.choice([1, 2]), N=n, max_extent=3) for n in ctx.rng.sample([1, 2, 3, 5, 8, 13], 3)]
    for kind in ("ccube", "xcube"):
        def build(case):
            if kind == "ccube":
                return ccube([G.make_index(d, c) for d, c in zip(case["dense"], case["commons"])])
            ish = tuple(int(max([int(v) for v in np.unique(d).tolist()] + [c])) + 1 for d, c in zip(case["dense"], case["commons"]))
            return xcube([d.astype(np.int64) for d in case["dense"]], interacting_shape=ish)
        mk = (lambda: ffuncs.ffunc_count()) if kind == "ccube" else (lambda: xfuncs.xfunc_count())
        shared = mk()
        ctx.evaluations += 1
        ctx.hit("count_object_reused_across_cubes:" + kind)
        for case in cases + cases[::-1]:
            if not case["dense"]:
                continue
            try:
                got = build(case).calculate([shared])
                want = build(case).calculate([mk()])
            except Exception as e:
                ctx.hit("count_reuse_raised:" + type(e).__name__)
                continue
            if not same(got, want):
                ctx.oracle_fail("%s: a count function object re-used on a cube with another row count gives %s, a fresh object %s" % (
                    kind, np.asarray(got[0]).reshape(-1).tolist()[:8], np.asarray(want[0]).reshape(-1).tolist()[:8]),
                    {"cube": kind, "N": case["N"], "Ns": [c["N"] for c in cases]}, cls="C17-hidden-state")
                return


def construction(ctx):
    """iindex.from_array leaves its array, counts and mapping arguments unchanged (all option combinations)"""
    from catii import iindex
    nd = ctx.rng.choice([1, 2])
    N = ctx.rng.choice([3, 9, 40, 120])
    vals = ctx.rng.choice([[0, 1, 2], [0, 1, 2, 3, 4, 5, 6], [5, 11, 14, 16, 20, 30]])
    w = [10.0] + [1.0] * (len(vals) - 1)
    shape = (N,) if nd == 1 else (N, ctx.rng.randrange(1, 3))
    a = np.array(ctx.rng.choices(vals, weights=w, k=int(np.prod(shape))), dtype=np.int64).reshape(shape)
    vv, cn = np.unique(a, return_counts=True)
    counts = {int(x): int(y) for x, y in zip(vv.tolist(), cn.tolist())} if ctx.rng.random() < 0.7 else None
    mapping = {int(v): ctx.rng.choice([0, 1, 2, 7]) for v in vals} if ctx.rng.random() < 0.4 else None
    common = ctx.rng.choice([None, vals[0], vals[-1], 99])
    if mapping is not None and common == 99:
        common = None
    kw = {}
    if counts is not None:
        kw["counts"] = counts
    if mapping is not None:
        kw["mapping"] = mapping
    if common is not None:
        kw["common"] = common
    before = (a.tobytes(), None if counts is None else list(counts.items()), None if mapping is None else list(mapping.items()))
    ctx.evaluations += 1
    ctx.hit("from_array" + ("/counts" if counts is not None else "") + ("/mapping" if mapping is not None else ""))
    try:
        iindex.from_array(a, **kw)
    except Exception:
        ctx.hit("from_array_raised")
    after = (a.tobytes(), None if counts is None else list(counts.items()), None if mapping is None else list(mapping.items()))
    if after != before:
        what = "array" if after[0] != before[0] else "counts" if after[1] != before[1] else "mapping"
        ctx.oracle_fail("iindex.from_array changed its %s argument" % what,
                        {"shape": list(shape), "distinct": vals, "counts": counts is not None, "mapping": mapping is not None,
                         "common": common}, cls="C17-input-mutated")


def cube_history(ctx):
    """results depend only on the arguments: a cube object that has already been evaluated gives, after one of its
    (multi-axis) dimensions was changed in place, what a cube built now from the same objects gives"""
    from catii import ccube
    for _try in range(50):
        case = c13.gen_multi(ctx.rng)
        if case["N"] > 0:
            break
    dense, commons, N = case["dense"], case["commons"], case["N"]
    idxs = [G.make_index(d, c) for d, c in zip(dense, commons)]
    ishape = tuple(int(max([int(v) for v in np.unique(d).tolist()] + [c])) + 1 for d, c in zip(dense, commons))
    used = ccube(idxs, interacting_shape=ishape)
    idle = ccube(idxs, interacting_shape=ishape)
    desc = A.small_desc(case, {"history": "evaluate, update a dimension in place, evaluate again"})
    ctx.case(desc, nontrivial=True)
    ctx.hit("cube_history")
    try:
        A.call(used, "count", case, ("pair", 0))
        a = ctx.rng.choice([j for j, d in enumerate(dense) if d.ndim > 1] or [0])
        d2 = dense[a]
        present = sorted(set(int(v) for v in d2.reshape(-1).tolist()) | {int(commons[a])})
        ent = {}
        for _k in range(ctx.rng.randrange(1, 4)):
            pos = tuple(ctx.rng.randrange(s_) for s_ in d2.shape)
            v = ctx.rng.choice(present)
            ent.setdefault((int(v),) + tuple(int(x) for x in pos[1:]), set()).add(int(pos[0]))
        seen = set()
        clean = {}
        for k, rows in ent.items():             # one value per cell
            rows = {r for r in rows if (r,) + k[1:] not in seen}
            seen |= {(r,) + k[1:] for r in rows}
            if rows:
                clean[k] = np.array(sorted(rows), dtype=np.uint32)
        idxs[a].update(clean)
        for func in ("count", "sum"):
            ctx.evaluations += 1
            r_used = c16.flat_bytes([A.call(used, func, case, ("pair", 0))])
            r_idle = c16.flat_bytes([A.call(idle, func, case, ("pair", 0))])
            r_new = c16.flat_bytes([A.call(ccube(idxs, interacting_shape=ishape), func, case, ("pair", 0))])
            if not (r_used == r_idle == r_new):
                ctx.oracle_fail("ccube.%s: after dimension %d was updated in place, a cube evaluated before the update, a cube "
                                "built before it but never evaluated, and a cube built now give different results (%s)" % (
                                    func, a, "used != new" if r_used != r_new else "idle != new"), desc, cls="C17-hidden-state")
                return
    except Exception as e:
        ctx.oracle_fail("cube history raised %s: %s" % (type(e).__name__, str(e)[:80]), desc, cls="C17-hidden-state")


def reuse_across_cubes(ctx):
    """ONE aggregate-function object of the array cube (every statistic, unweighted and weighted, both policies; facts in no
    particular order, with and without a missing value) used on a cube WITHOUT dimensions, then on a cube with one dimension,
    then on both again: every result must be the one a fresh object gives on that cube."""
    from catii import xcube, xfuncs
    rng = np.random.default_rng(ctx.seed + 17)
    for rep in range(ctx.n(3)):
        N = int(rng.choice([8, 11]))
        group = rng.integers(0, 2, size=N)
        fact = np.round(rng.permutation(N) * 1.5 + 0.25, 2)
        fact2 = np.stack([fact, fact[::-1] * 2.0], axis=1)
        ok = np.ones(N, dtype=bool)
        if rep % 2:
            ok[int(rng.integers(N))] = False
        wts = rng.choice([0.5, 1.0, 2.0], size=N)
        for name, two in (("sum", False), ("mean", False), ("valid_count", False), ("stddev", False), ("quantile", False),
                          ("quantile", True), ("min", False), ("max", False), ("covariance", True), ("corrcoef", True), ("stddev", True)):
            for w in (None, wts):
                for ign in (False, True):
                    if name in ("min", "max", "corrcoef") and w is not None:
                        continue

                    def mkf():
                        fa = ((fact2 if two else fact).copy(), (np.stack([ok, ok], axis=1) if two else ok).copy())
                        cls = getattr(xfuncs, "xfunc_" + name)
                        if name == "quantile":
                            return cls(fa, 0.5, None if w is None else w.copy(), ign, float("nan"))
                        if name in ("min", "max"):
                            return cls(fa, ign, float("nan"))
                        if name == "corrcoef":
                            return cls(fa, None, ign, float("nan"))
                        return cls(fa, None if w is None else w.copy(), ign, float("nan"))
                    desc = {"reuse_across_cubes": name, "two_columns": two, "weighted": w is not None, "ignore_missing": ign,
                            "group": group.tolist(), "fact": fact.tolist(), "valid": ok.tolist()}
                    ctx.case(desc, nontrivial=True)
                    ctx.hit("reuse_across_cubes:" + name)
                    try:
                        alone0 = xcube([]).calculate([mkf()])
                        alone1 = xcube([group]).calculate([mkf()])
                    except Exception as e:
                        ctx.hit("reuse_reference_raised:" + type(e).__name__)
                        continue
                    try:
                        f = mkf()
                        got = [xcube([]).calculate([f]), xcube([group]).calculate([f]), xcube([]).calculate([f]), xcube([group]).calculate([f])]
                    except Exception as e:
                        ctx.oracle_fail("xfunc_%s: re-using one object on a cube without and a cube with a dimension raised %s: %s" % (
                            name, type(e).__name__, str(e)[:60]), desc, cls="C17-hidden-state")
                        continue
                    for k, (g, want) in enumerate(zip(got, [alone0, alone1, alone0, alone1])):
                        if not same(g, want):
                            ctx.oracle_fail("xfunc_%s (weighted=%s, ignore_missing=%s): use #%d of ONE object (cube %s dimension) gives %s, a "
                                            "fresh object gives %s" % (name, w is not None, ign, k + 1, "with a" if k % 2 else "without",
                                                                       str(np.asarray(g[0]).tolist())[:60], str(np.asarray(want[0]).tolist())[:60]),
                                            desc, cls="C17-hidden-state")
                            break


def run(ctx):
    core.load_catii()
    reuse_across_cubes(ctx)
    for _ in range(ctx.n(12, 300)):
        cube_history(ctx)
    for _ in range(ctx.n(60, 2000)):
        construction(ctx)
    for _ in range(ctx.n(30, 600)):
        count_reuse(ctx)
    for _ in range(ctx.n(14, 600)):
        case = A.gen_case(ctx.rng, multi_axis=ctx.rng.random() < 0.3, k=ctx.rng.choice([1, 2, 2]),
                          N=ctx.rng.choice([2, 3, 5, 9]))
        if case["K"] is None and ctx.rng.random() < 0.3:
            case["K"] = None
        check(ctx, case)
    for _ in range(ctx.n(40, 3000)):
        index_methods(ctx)


def replay(ctx, rep):
    return True
