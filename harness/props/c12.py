"""C12 — a torn INDX file is always rejected: load on EVERY strict prefix of every generated file."""
import core
import indx_common as X

ID = "C12"
LEAN_MODULES = ["CatiiProps.C12"]
USES_TRANSLATOR = True
RULE = ("files from C10's exhaustive level and random small cases; for each file F every cut point 0 <= k < len(F) is "
        "loaded through the real loader (exhaustive over k, as the quantifier demands); the model's error class is "
        "compared at every k. Non-trivial = a (file, k) pair with k >= 16 (header intact); distinct by (file, k)")
ASSUMPTIONS = ["a torn write leaves a prefix of the intended bytes",
               "mmap.mmap(fd, n) raises when n exceeds the file size (validated on every prefix here)"]

EXPECT = {"header": "RuntimeError", "version": "RuntimeError", "structShort": "error", "mmapShort": "ValueError"}


def check_file(ctx, ld, case, b, reqs, pend):
    res = []
    for k in range(len(b)):
        lo = ld.load(b[:k])
        ctx.evaluations += 1
        if k >= 16:
            ctx.nontrivial.add(core.jhash([b.hex(), k]))
        ctx.hit("cut:" + ("magic" if k < 4 else "version" if k < 8 else "size" if k < 16 else "payload"))
        if lo[0] == "ok":
            ctx.oracle_fail("load of a file cut at byte %d of %d returned entries %s" % (k, len(b), str(lo[1])[:120]),
                            dict(X.small_desc(case), cut=k, file_len=len(b)), cls="C12-torn-accepted")
            res.append("LOADED")
        else:
            res.append(lo[1])
    if len(ctx.samples) < 6:
        ctx.samples.append(dict(X.small_desc(case), file_len=len(b), cuts="all %d prefixes" % len(b)))
    reqs.append({"op": "indx_load_prefixes", "hex": b.hex()})
    pend.append((case, res))


def run(ctx):
    core.load_catii()
    ld = X.Loader()
    try:
        reqs, pend = [], []
        n = 0
        for case in X.exhaustive_cases():
            if ctx.scale == 1 and n % 7 != ctx.seed % 7 and len(case["entries"]) == 2:
                n += 1
                continue
            n += 1
            sv = X.impl_save(case["entries"], case["common"])
            if sv[0] == "ok":
                check_file(ctx, ld, case, sv[1], reqs, pend)
        for _ in range(ctx.n(40)):
            case = X.gen_case(ctx.rng, small=True)
            sv = X.impl_save(case["entries"], case["common"])
            if sv[0] == "ok" and len(sv[1]) <= 3000:
                check_file(ctx, ld, case, sv[1], reqs, pend)
        ctx.exhaustive.append("every cut point of each of %d files" % len(pend))
        if ctx.oracle_only:
            return
        for (case, res), m in zip(pend, ctx.model.run(reqs)):
            for k, (r, mm) in enumerate(zip(res, m)):
                exp = EXPECT.get(mm, "LOADED" if mm == "LOADED" else "other")
                if (r == "LOADED") != (mm == "LOADED") or (mm in EXPECT and r != exp):
                    ctx.corr_fail("cut %d: impl %s, model %s" % (k, r, mm), dict(X.small_desc(case), cut=k))
                    break
    finally:
        ld.close()


def replay(ctx, rep):
    core.load_catii()
    c = rep["case"]
    ld = X.Loader()
    try:
        sv = X.impl_save(c["entries"], c["common"])
        return sv[0] == "ok" and ld.load(sv[1][:c["cut"]])[0] != "ok"
    finally:
        ld.close()
