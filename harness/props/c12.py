"""C12 — a torn INDX file is always rejected: load on EVERY strict prefix of every generated file."""
import core
import indx_common as X

ID = "C12"
LEAN_MODULES = ["CatiiProps.C12"]
USES_TRANSLATOR = ['fit_dtype', 'consts', 'indx_fileops']
RULE = ("files from C10's exhaustive level and random small cases; for each file F every cut point 0 <= k < len(F) is "
        "loaded through the real loader (exhaustive over k, as the quantifier demands); the model's error class is "
        "compared at every k; in addition the writer itself is interrupted (a row-id array fails after h bytes: first/middle/last entry, h = 0, 1, 4, half, all but one byte; files up to 280 kB) and what it left on disk is loaded. Non-trivial = a (file, k) pair with k >= 16 (header intact); distinct by (file, k)")
ASSUMPTIONS = ["a torn write leaves a prefix of the intended bytes (observed on interrupted saves: evidence counter interrupted_save:leaves_a_prefix)",
               "mmap.mmap(fd, n) raises when n exceeds the file size (validated on every prefix here)"]

EXPECT = {"header": "RuntimeError", "version": "RuntimeError", "structShort": "error", "mmapShort": "ValueError"}


def check_file(ctx, ld, case, b, reqs, pend):
    res = []
    for k in range(len(b)):
        lo = ld.load(b[:k])
        ctx.evaluations += 1
        if k >= 16:
            ctx.nontrivial.add(core.jhash([b.hex(), k]))
        ctx.hit("cut:" + ("magic" if k < 4 else "version" if k < 8 else "size" if k < 16 else "payload"))
        if lo[0] == "ok":
            ctx.oracle_fail("load of a file cut at byte %d of %d returned entries %s" % (k, len(b), str(lo[1])[:120]),
                            dict(X.small_desc(case), cut=k, file_len=len(b)), cls="C12-torn-accepted")
            res.append("LOADED")
        else:
            res.append(lo[1])
    if len(ctx.samples) < 6:
        ctx.samples.append(dict(X.small_desc(case), file_len=len(b), cuts="all %d prefixes" % len(b)))
    reqs.append({"op": "indx_load_prefixes", "hex": b.hex()})
    pend.append((case, res))


class Interrupted:
    """a row-id array whose write is cut short: `h` bytes reach the file, then the device is full"""

    def __init__(self, arr, h):
        self.arr, self.h, self.dtype = arr, h, arr.dtype

    def __len__(self):
        return len(self.arr)

    def tofile(self, f):
        f.write(self.arr.tobytes()[:self.h])
        f.flush()
        raise OSError(28, "No space left on device")


def interrupted_saves(ctx, ld):
    """the writer itself is interrupted (one of its row-id arrays fails part-way, as on a full disk) and what is left in
    the file is loaded: this does not assume that a torn write leaves a prefix - it observes what the writer leaves"""
    import os
    import tempfile
    import numpy as np
    from catii.indxio import IndxIO
    sizes = [[3, 2, 4], [1, 0, 2], [30000, 5, 30000], [70001, 3]] if ctx.scale == 1 else \
        [[3, 2, 4], [1, 0, 2], [5], [30000, 5, 30000], [70001, 3], [16000, 16000, 16000, 16000, 16000], [200000]]
    for lens in sizes:
        arrays = [np.arange(7, 7 + 3 * L, 3, dtype=np.uint32) for L in lens]
        for j in range(len(lens)):
            for h in sorted({0, 1, 4, 2 * lens[j], max(0, 4 * lens[j] - 1)}):
                if h > 4 * lens[j]:
                    continue
                d = {(q + 1,): (Interrupted(a, h) if q == j else a) for q, a in enumerate(arrays)}
                case = {"interrupted_save": {"entry_lengths": lens, "failing_entry": j, "bytes_of_it_written": h}}
                ctx.case(case, nontrivial=True)
                ctx.evaluations += 1
                with tempfile.TemporaryDirectory(prefix="catii-indx-") as td:
                    path = os.path.join(td, "x.indx")
                    with open(path, "wb") as f:
                        try:
                            IndxIO.save(f, d, 0, np.dtype(np.uint32))
                            raised = False
                        except OSError:
                            raised = True
                    with open(path, "rb") as f:
                        left = f.read()
                if not raised:
                    ctx.oracle_fail("save swallowed the write error of entry %d" % j, case, cls="C12-torn-accepted")
                    continue
                full = X.spec_encode([[[q + 1], a.tolist()] for q, a in enumerate(arrays)], 0)
                ctx.hit("interrupted_save:" + ("leaves_a_prefix" if left == full[:len(left)] else "leaves_something_else"))
                lo = ld.load(left)
                if lo[0] == "ok":
                    ctx.oracle_fail("a save interrupted in entry %d of %s (after %d bytes of it) left a %d-byte file (complete: %d bytes) "
                                    "that loads and returns %d entries" % (j, lens, h, len(left), len(full), len(lo[1])), case,
                                    cls="C12-torn-accepted")


def interrupted_writes(ctx, ld):
    """the writer interrupted INSIDE any of its own `write()` calls, in the order it issues them (whatever that order is): the
    file object stores the first b bytes of call number c and then fails like a full device.  What is on disk afterwards is
    either the complete file or must not load.  (Row-id arrays go to the descriptor directly; those writes are cut in
    `interrupted_saves`.)"""
    import io
    import os
    import tempfile
    import numpy as np
    from catii.indxio import IndxIO

    class CrashingFile(io.FileIO):
        def __init__(self, path, call, byte):
            super().__init__(path, "w")
            self.crash, self.calls = (call, byte), []

        def write(self, data):
            data = bytes(data)
            n = len(self.calls)
            self.calls.append(len(data))
            if self.crash[0] == n:
                super().write(data[:self.crash[1]])
                raise OSError(28, "No space left on device")
            return super().write(data)

    for lens in ([60, 40], [3, 2, 4], [700]):
        arrays = [np.arange(5, 5 + 2 * L, 2, dtype=np.uint32) for L in lens]
        d = {(q + 1,): a for q, a in enumerate(arrays)}
        full = X.spec_encode([[[q + 1], a.tolist()] for q, a in enumerate(arrays)], 0)
        with tempfile.TemporaryDirectory(prefix="catii-indx-") as td:
            path = os.path.join(td, "x.indx")
            f = CrashingFile(path, None, 0)
            try:
                IndxIO.save(f, d, 0, np.dtype(np.uint32))
            finally:
                f.close()
            calls = list(f.calls)
            for c, n in enumerate(calls):
                for b in sorted({0, 1, n // 2, n - 1}):
                    if not 0 <= b < n:
                        continue
                    case = {"interrupted_write": {"entry_lengths": lens, "write_call": c, "of": len(calls), "bytes_of_it_written": b}}
                    ctx.case(case, nontrivial=True)
                    ctx.evaluations += 1
                    ctx.hit("interrupted_write")
                    f = CrashingFile(path, c, b)
                    try:
                        IndxIO.save(f, d, 0, np.dtype(np.uint32))
                        raised = False
                    except OSError:
                        raised = True
                    finally:
                        f.close()
                    left = open(path, "rb").read()
                    if not raised:
                        ctx.oracle_fail("save swallowed the error of its write call %d" % c, case, cls="C12-torn-accepted")
                        continue
                    if left == full:
                        continue
                    lo = ld.load(left)
                    if lo[0] == "ok":
                        ctx.oracle_fail("a save interrupted %d bytes into its write call %d of %d (entries of %s row ids) left a %d-byte file "
                                        "(complete: %d bytes, differs from it) that loads and returns %s" % (
                                            b, c, len(calls), lens, len(left), len(full), str(lo[1])[:80]), case, cls="C12-torn-accepted")


def reload_history(ctx):
    """a process that has loaded the COMPLETE file before and still holds what that load returned (row-id arrays backed by the
    file's mapping), closes it, and then opens a torn copy - which gets the same descriptor number: every strict prefix must
    still be rejected.  What an earlier load left behind (a cache of mappings, of sizes, of parsed headers) must not stand in
    for the bytes of the file at hand."""
    import os
    import tempfile
    import numpy as np
    from catii.indxio import IndxIO
    for lens in ([3, 2, 4], [40, 1]):
        ents = [[[q + 1], list(range(2, 2 + 3 * L, 3))] for q, L in enumerate(lens)]
        full = X.spec_encode(ents, 0)
        with tempfile.TemporaryDirectory(prefix="catii-indx-") as td:
            p1, p2 = os.path.join(td, "complete.indx"), os.path.join(td, "torn.indx")
            open(p1, "wb").write(full)
            f1 = open(p1, "rb")
            try:
                kept = IndxIO.load(f1)          # held for the rest of the history
            except Exception as e:
                f1.close()
                ctx.oracle_fail("load of a documented-layout file raised %s" % type(e).__name__, {"reload_history": lens}, cls="C12-complete-rejected")
                continue
            fd1 = f1.fileno()
            f1.close()
            for k in range(len(full)):
                case = {"reload_history": lens, "cut": k, "file_len": len(full)}
                ctx.case(case, nontrivial=k >= 16)
                ctx.evaluations += 1
                open(p2, "wb").write(full[:k])
                with open(p2, "rb") as f2:
                    if f2.fileno() == fd1:
                        ctx.hit("reload_history:same_descriptor")
                    try:
                        got = IndxIO.load(f2)
                    except Exception:
                        continue
                ctx.oracle_fail("after the complete file had been loaded (its entries still held) and closed, load of a copy cut at byte %d "
                                "of %d returned %d entries" % (k, len(full), len(got[0])), case, cls="C12-torn-accepted")
                break
            del kept


def run(ctx):
    core.load_catii()
    ld = X.Loader()
    try:
        reqs, pend = [], []
        n = 0
        for case in X.exhaustive_cases():
            if ctx.scale == 1 and n % 7 != ctx.seed % 7 and len(case["entries"]) == 2:
                n += 1
                continue
            n += 1
            sv = X.impl_save(case["entries"], case["common"])
            if sv[0] == "ok":
                check_file(ctx, ld, case, sv[1], reqs, pend)
        for _ in range(ctx.n(40)):
            case = X.gen_case(ctx.rng, small=True)
            sv = X.impl_save(case["entries"], case["common"])
            if sv[0] == "ok" and len(sv[1]) <= 3000:
                check_file(ctx, ld, case, sv[1], reqs, pend)
        ctx.exhaustive.append("every cut point of each of %d files" % len(pend))
        # files written by other versions or tools (row-id words of 1, 2 or 8 bytes; any legal coordinate word size): a torn
        # one must be rejected just the same.  Encoded by the independent encoder, every strict prefix loaded.
        n_other = 0
        for case in list(X.exhaustive_cases())[::5] + [X.gen_case(ctx.rng, small=True) for _ in range(ctx.n(12))]:
            mx = max([0] + [r for _k, rows in case["entries"] for r in rows])
            for wr in (1, 2, 8):
                if mx >= 256 ** wr or any(len(rows) >= 256 ** wr for _k, rows in case["entries"]):
                    continue
                b = X.spec_encode(case["entries"], case["common"], wr=wr)
                if len(b) > 1500:
                    continue
                n_other += 1
                ctx.hit("other_rowid_word:%d" % wr)
                for k in range(len(b)):
                    lo = ld.load(b[:k])
                    ctx.evaluations += 1
                    if lo[0] == "ok":
                        ctx.oracle_fail("load of a file with %d-byte row-id words cut at byte %d of %d returned entries %s" % (
                            wr, k, len(b), str(lo[1])[:120]), dict(X.small_desc(case), cut=k, file_len=len(b), rowid_word=wr),
                            cls="C12-torn-accepted")
                        break
        ctx.exhaustive.append("every cut point of %d independently encoded files with 1/2/8-byte row-id words" % n_other)
        # the same torn bytes handed over as other kinds of file object: an in-memory stream, a buffered reader over a pipe-like
        # raw object without a usable descriptor, a file opened unbuffered.  None of them may load either.
        import io
        import os as _os
        import tempfile as _tf
        from catii.indxio import IndxIO
        n_obj = 0
        for case in list(X.exhaustive_cases())[::9] + [X.gen_case(ctx.rng, small=True) for _ in range(ctx.n(6))]:
            sv = X.impl_save(case["entries"], case["common"])
            if sv[0] != "ok" or len(sv[1]) > 400:
                continue
            b = sv[1]
            n_obj += 1
            for k in range(len(b)):
                for kind in ("BytesIO", "BufferedReader(BytesIO)", "unbuffered file"):
                    ctx.evaluations += 1
                    try:
                        if kind == "BytesIO":
                            IndxIO.load(io.BytesIO(b[:k]))
                        elif kind == "BufferedReader(BytesIO)":
                            IndxIO.load(io.BufferedReader(io.BytesIO(b[:k])))
                        else:
                            with _tf.NamedTemporaryFile(prefix="catii-indx-", delete=False) as tf:
                                tf.write(b[:k])
                            try:
                                with open(tf.name, "rb", buffering=0) as fh:
                                    IndxIO.load(fh)
                            finally:
                                _os.unlink(tf.name)
                    except Exception:
                        continue
                    ctx.hit("torn_accepted_via:" + kind)
                    ctx.oracle_fail("load of a file cut at byte %d of %d, handed over as %s, returned entries" % (k, len(b), kind),
                                    dict(X.small_desc(case), cut=k, file_len=len(b), file_object=kind), cls="C12-torn-accepted")
                    break
                else:
                    continue
                break
        ctx.hit("file_object_kinds", n_obj)
        ctx.exhaustive.append("every cut point of %d files as BytesIO / BufferedReader / unbuffered file objects" % n_obj)
        interrupted_saves(ctx, ld)
        interrupted_writes(ctx, ld)
        reload_history(ctx)
        if ctx.oracle_only:
            return
        for (case, res), m in zip(pend, ctx.model.run(reqs)):
            for k, (r, mm) in enumerate(zip(res, m)):
                exp = EXPECT.get(mm, "LOADED" if mm == "LOADED" else "other")
                if (r == "LOADED") != (mm == "LOADED") or (mm in EXPECT and r != exp):
                    ctx.corr_fail("cut %d: impl %s, model %s" % (k, r, mm), dict(X.small_desc(case), cut=k))
                    break
    finally:
        ld.close()


def replay(ctx, rep):
    core.load_catii()
    c = rep["case"]
    if c.get("file_object"):
        return True    # re-run the check: the three kinds of file object are built there
    if c.get("rowid_word"):
        ld = X.Loader()
        try:
            b = X.spec_encode(c["entries"], c["common"], wr=c["rowid_word"])
            return ld.load(b[:c["cut"]])[0] != "ok"
        finally:
            ld.close()
    if "reload_history" in c:
        n0 = len(ctx.oracle_failures)
        reload_history(ctx)
        return len(ctx.oracle_failures) == n0
    if "interrupted_write" in c:
        n0 = len(ctx.oracle_failures)
        interrupted_writes(ctx, ld)
        return len(ctx.oracle_failures) == n0
    if "interrupted_save" in c:
        c2 = core.Ctx(ID, "quick", 0)
        ld = X.Loader()
        try:
            interrupted_saves(c2, ld)
        finally:
            ld.close()
        return not c2.oracle_failures
    ld = X.Loader()
    try:
        sv = X.impl_save(c["entries"], c["common"])
        return sv[0] == "ok" and ld.load(sv[1][:c["cut"]])[0] != "ok"
    finally:
        ld.close()
