"""C06 — index operations track NumPy on the dense array over any history."""
import core
import hist

ID = "C06"
LEAN_MODULES = ["CatiiProps.C06"]
USES_TRANSLATOR = ['common_rowids', 'shift_to', 'append', 'filtered', 'queries']   # Gen/MaskGen.lean: iindex.common_rowids as a mask program (tools/translate_mask.py); Gen/ShiftGen.lean: the re-encoding block of shift_common (tools/translate_shift.py)
RULE = ("histories of 1..12 operations from the full alphabet of the property on generated well-formed 1-D/2-D indexes "
        "(3-D for slicing / slice iteration), plus every index with <=3 rows, <=2 columns over {0,1,2} x every operation; "
        "after EVERY step: dense content vs NumPy reference, to_array(dtype=int), operands byte-compared, requested copies "
        "checked for shared storage, model applied to the same pre-state. Non-trivial = the receiver has entries or the "
        "operation brings data; distinct by (pre-state, operation, arguments)")
ASSUMPTIONS = ["column_stack(new_common=None) may break sparsity ties differently in float and exact arithmetic; that "
               "choice is part of no property and is not compared"]


def run(ctx):
    hist.drive(ctx, "C06")


def replay(ctx, rep):
    import idx_common as I
    core.load_catii()
    c = rep["case"]
    import random
    for seed in range(200):   # the failing step depended on seeded arguments; re-run the operation on the recorded pre-state
        ix = I.from_json(c["pre"])
        st, _, _ = hist.apply_step(random.Random(seed), ix, I.dense_of(ix), c["op"])
        if any(f[0] == "C06" for f in st.fails):
            return False
    return True
