"""Shared INDX machinery for C10/C11/C12: generators, an independent Python codec written from the
class docstring (the oracle side — it never consults the Lean model), impl wrappers."""
import itertools
import os
import struct
import tempfile

import numpy as np

import core

U32 = 2**32 - 1
CLASSES = [(0, 255), (256, 65535), (65536, 2**32 - 1), (2**32, 2**63 - 1)]


def width_for(mx):
    return 1 if mx <= 255 else 2 if mx <= 65535 else 4 if mx <= U32 else 8


def pick(rng, cls):
    lo, hi = CLASSES[cls]
    return rng.choice([lo, hi, rng.randrange(lo, hi + 1)])


def gen_case(rng, small=False):
    arity = rng.choice([1, 1, 2, 2, 3, 4])
    n = rng.choice([0, 1, 2, 3]) if small else rng.choice([0, 1, 2, 5, 12, 30])
    ccls = rng.randrange(4)
    kcls = rng.randrange(4)
    keys = set()
    tries = 0
    while len(keys) < n and tries < 10 * n + 10:
        tries += 1
        key = tuple(pick(rng, rng.randrange(ccls + 1)) if i == 0 or rng.random() < 0.5 else rng.randrange(0, 6)
                    for i in range(arity))
        keys.add(key)
    keys = list(keys)
    if keys and rng.random() < 0.7:   # force the class maximum to occur
        k0 = list(keys[0]); k0[rng.randrange(arity)] = CLASSES[ccls][1]; k0 = tuple(k0)
        if k0 not in keys:
            keys[0] = k0
    rng.shuffle(keys)
    entries = []
    for k in keys:
        m = rng.choice([0, 1, 1, 2, 3, 7]) if small else rng.choice([0, 1, 2, 3, 10, 40])
        style = rng.choice(["small", "edge", "wide"])
        if style == "small":
            ids = sorted(rng.sample(range(0, 3 * m + 3), m))
        elif style == "edge":
            pool = [0, 1, 255, 256, 65535, 65536, 2**31 - 1, 2**31, U32 - 1, U32]
            ids = sorted(rng.sample(pool, min(m, len(pool))))
        else:
            ids = sorted({rng.randrange(0, U32 + 1) for _ in range(m)})
        entries.append([list(k), ids])
    common = pick(rng, kcls)
    return {"entries": entries, "common": common, "arity": arity, "coord_class": ccls, "common_class": kcls,
            "layout": rng.choice(LAYOUTS), "handle": rng.choice(HANDLES)}


def exhaustive_cases():
    """arity <= 2, <= 2 entries, every width class for the largest coordinate x the common value,
    row-id lists from a small set including the empty one and 2^32-1"""
    lists = [[], [0], [0, U32]]
    for arity in (1, 2):
        for n in (0, 1, 2):
            for ccls in range(4):
                for kcls in range(4):
                    top = CLASSES[ccls][1]
                    common = CLASSES[kcls][1]
                    for rl in itertools.product(lists, repeat=n):
                        keys = [[top] + [0] * (arity - 1), [1] + [top] * (arity - 1)][:n]
                        if n == 2 and keys[0] == keys[1]:
                            keys[1] = [2] + [0] * (arity - 1)
                        yield {"entries": [[k, list(r)] for k, r in zip(keys, rl)], "common": common,
                               "arity": arity, "coord_class": ccls if n else -1, "common_class": kcls}


# ---- independent codec from the docstring (oracle side) ----------------------------------------
def spec_encode(entries, common, wi=None, wr=4):
    """bytes of the documented layout; wi defaults to the narrowest word size holding every coordinate and common"""
    mx = max([common] + [c for k, _ in entries for c in k])
    if wi is None:
        wi = width_for(mx)
    arity = len(entries[0][0]) if entries else 0
    le = lambda v, w: int(v).to_bytes(w, "little")
    p = bytes([arity]) + le(len(entries), 4) + bytes([wi]) + le(common, wi)
    p += b"".join(le(c, wi) for k, _ in entries for c in k)
    p += bytes([wr]) + b"".join(le(len(r), wr) for _, r in entries)
    p += b"".join(le(x, wr) for _, r in entries for x in r)
    return b"INDX0001" + le(len(p), 8) + p


def spec_decode(b):
    """independent decoder; raises on anything that is not a complete, well-laid-out file"""
    if b[:8] != b"INDX0001":
        raise ValueError("magic")
    size = int.from_bytes(b[8:16], "little")
    if len(b) != 16 + size or len(b) < 16:
        raise ValueError("size")
    o = 16
    dims = b[o]; o += 1
    n = int.from_bytes(b[o:o + 4], "little"); o += 4
    wi = b[o]; o += 1
    if wi not in (1, 2, 4, 8):
        raise ValueError("wi")
    common = int.from_bytes(b[o:o + wi], "little"); o += wi
    keys = []
    for _ in range(n):
        keys.append([int.from_bytes(b[o + i * wi:o + (i + 1) * wi], "little") for i in range(dims)]); o += dims * wi
    wr = b[o]; o += 1
    if wr not in (1, 2, 4, 8):
        raise ValueError("wr")
    lens = [int.from_bytes(b[o + i * wr:o + (i + 1) * wr], "little") for i in range(n)]; o += n * wr
    rows = []
    for l in lens:
        rows.append([int.from_bytes(b[o + i * wr:o + (i + 1) * wr], "little") for i in range(l)]); o += l * wr
    if o != len(b):
        raise ValueError("trailing")
    return [[k, r] for k, r in zip(keys, rows)], common, wi, wr


# ---- the real code ------------------------------------------------------------------------------
LAYOUTS = [None, None, "stride2", "column", "backwards", "unpickled", "explicit_le", "derived_from_unpickled"]


def rowid_array(r, layout=None):
    """a uint32 row-id array; optionally a non-contiguous view (index entries assigned by a caller may be slices or
    columns of other arrays), with foreign words in the gaps"""
    a = np.array(r, dtype=np.uint32)
    if layout == "stride2":
        buf = np.full(2 * len(r) + 1, 0xA5A5A5A5, dtype=np.uint32)
        buf[0:2 * len(r):2] = a
        return buf[0:2 * len(r):2]
    if layout == "column":
        m = np.full((len(r), 3), 0x5A5A5A5A, dtype=np.uint32)
        m[:, 1] = a
        return m[:, 1]
    if layout == "backwards":
        return np.array(list(reversed(r)), dtype=np.uint32)[::-1]
    if layout == "unpickled":
        # an array that came back from a worker process, a cache or a queue: equal dtype, but not the dtype singleton
        import pickle
        return pickle.loads(pickle.dumps(a))
    if layout == "explicit_le":
        return a.view(np.dtype("<u4"))
    if layout == "derived_from_unpickled":
        import pickle
        return pickle.loads(pickle.dumps(np.concatenate([a, a])))[:len(a)]
    return a


HANDLES = [None, None, None, "wb", "ab", "a+b", "r+b", "unbuffered"]


def impl_save(entries, common, layout=None, handle=None):
    """IndxIO.save through a TemporaryFile (default) or through a named file opened in another mode: write-only,
    append (new empty file), append+read, update of an existing empty file, unbuffered"""
    from catii.indxio import IndxIO
    d = {tuple(k): rowid_array(r, layout) for k, r in entries}
    if handle is None:
        with tempfile.TemporaryFile() as f:
            try:
                IndxIO.save(f, d, common, np.dtype(np.uint32))
            except Exception as e:
                return ("raise", type(e).__name__ + ": " + str(e)[:100])
            f.seek(0)
            return ("ok", f.read())
    with tempfile.TemporaryDirectory(prefix="catii-indx-") as td:
        path = os.path.join(td, "x.indx")
        if handle == "r+b":
            open(path, "wb").close()
        mode = {"wb": "wb", "ab": "ab", "a+b": "a+b", "r+b": "r+b", "unbuffered": "wb"}[handle]
        kw = {"buffering": 0} if handle == "unbuffered" else {}
        with open(path, mode, **kw) as f:
            try:
                IndxIO.save(f, d, common, np.dtype(np.uint32))
            except Exception as e:
                return ("raise", type(e).__name__ + ": " + str(e)[:100])
        with open(path, "rb") as f:
            return ("ok", f.read())


class Loader:
    """loads byte strings through IndxIO.load using one reusable temp file (mmap needs a real fd)"""

    def __init__(self):
        self.f = tempfile.NamedTemporaryFile(prefix="catii-indx-", delete=False)
        self.path = self.f.name

    def load(self, b):
        from catii.indxio import IndxIO
        self.f.seek(0)
        self.f.truncate(0)
        self.f.write(b)
        self.f.flush()
        self.f.seek(0)
        try:
            entries, common, dt = IndxIO.load(self.f)
        except Exception as e:
            return ("raise", type(e).__name__)
        facts = {"key_types_int": all(type(c) is int for k in entries for c in k),
                 "keys_tuple": all(type(k) is tuple for k in entries),
                 "dtype_u32": all(v.dtype == np.uint32 for v in entries.values()),
                 "common_int": type(common) is int, "rowid_dtype": str(dt)}
        out = sorted([[int(c) for c in k], [int(x) for x in v.tolist()]] for k, v in entries.items())
        return ("ok", out, int(common), facts, entries)

    def close(self):
        try:
            self.f.close()
            os.unlink(self.path)
        except OSError:
            pass


SHORT_LENS = [0, 1, 3, 40, 1000]
LONG_LENS = [65535, 65536, 65537, 70001, 131077]


def long_desc(rng, fixed=None):
    """a few entries mixing short row-id arrays with ones around 2^16 / 2^17 ids (buffering and batching thresholds),
    described compactly as [key, length, start, step] so that evidence and replays stay small"""
    if fixed is not None:
        kinds = fixed
    else:
        kinds = [rng.choice("sl") for _ in range(rng.choice([2, 3, 4]))]
        kinds[rng.randrange(len(kinds))] = "l"
    arity = rng.choice([1, 2])
    desc = []
    for j, kd in enumerate(kinds):
        L = rng.choice(LONG_LENS if kd == "l" else SHORT_LENS)
        step = rng.choice([1, 2, 7])
        start = rng.choice([0, 5, 2**31, U32 - L * step])
        desc.append([[j + 1] + [rng.randrange(3)] * (arity - 1), L, start, step])
    return {"long": desc, "common": rng.choice([0, 300, 70000]), "arity": arity, "layout": rng.choice(LAYOUTS)}


def expand_long(case):
    return [[k, list(range(start, start + L * step, step))] for k, L, start, step in case["long"]]


def expand_many(case):
    """n entries with distinct keys (key j, or (j // 251, j % 251)), row ids [j] / [] / [j, j + n]: the number of ENTRIES, not
    of row ids, is what sits on a boundary"""
    n, ar = case["many"], case["arity"]
    return [[[j] if ar == 1 else [j // 251, j % 251], [j] if j % 3 == 0 else [] if j % 3 == 1 else [j, j + n]] for j in range(n)]


def canon(entries):
    return sorted([list(k), list(r)] for k, r in entries)


def small_desc(case):
    s = {"entries": case["entries"], "common": case["common"]}
    if len(str(s)) > 500:
        s = {"n_entries": len(case["entries"]), "arity": case.get("arity"), "common": case["common"],
             "first": case["entries"][:2]}
    if case.get("layout"):
        s["layout"] = case["layout"]
    if case.get("handle"):
        s["handle"] = case["handle"]
    return s
