"""Shared machinery for ./check: regen, Lean build + axiom audit, model driver, verdicts, evidence.

Flow (DESIGN §2.4):  regen -> proof -> correspondence -> oracle -> verdict.
Exit codes: 0 held, 1 VIOLATION, 2 infrastructure error / timeout.
"""
import fcntl
import hashlib
import importlib.util
import json
import os
import random
import re
import subprocess
import sys
import time

VERIF = os.path.dirname(os.path.dirname(os.path.abspath(__file__)))
LEAN = os.path.join(VERIF, "lean")
REPO = os.environ.get("CATII_REPO", "/repo")
PY = "/venv/bin/python"
ALLOWED_AXIOMS = {"propext", "Classical.choice", "Quot.sound"}
FORBIDDEN = re.compile(
    r"\b(sorry|admit|native_decide|bv_decide|implemented_by)\b|^\s*axiom\s|\bunsafe\s|maxHeartbeats\s+0\b"
)

sys.path.insert(0, os.path.join(VERIF, "tools"))
import buildext  # noqa: E402


class Infra(Exception):
    """Infrastructure problem (exit 2), never a violation."""


# ----------------------------------------------------------------------------
# tie 1: translator
# ----------------------------------------------------------------------------
def regen():
    """Regenerate Gen/*.lean from the current source. Returns (ok, message, {piece: message} for the pieces that failed)."""
    p = subprocess.run([PY, os.path.join(VERIF, "tools", "translate.py")],
                       capture_output=True, text=True, env=dict(os.environ, CATII_REPO=REPO))
    out = (p.stdout + p.stderr).strip()
    failed = {}
    for line in out.splitlines():
        m = re.match(r"FAILED (\w+): (.*)", line)
        if m:
            failed[m.group(1)] = m.group(2)
    if p.returncode != 0 and not failed:
        failed["translator"] = out[-300:]
    return p.returncode == 0, out, failed


# ----------------------------------------------------------------------------
# tie 2: the real code, with kernels built from the current .pyx
# ----------------------------------------------------------------------------
_loaded = {}


def load_kernels(variant="plain"):
    """Import set_operations built from the current .pyx (variant plain/checked)."""
    if variant in _loaded:
        return _loaded[variant]
    so = buildext.build(variant)
    name = "catii.set_operations" if variant == "plain" else "catii_%s.set_operations" % variant
    spec = importlib.util.spec_from_file_location(name, so)
    mod = importlib.util.module_from_spec(spec)
    spec.loader.exec_module(mod)
    _loaded[variant] = mod
    return mod


def load_catii():
    """Import catii from /repo's working tree with freshly built kernels pre-loaded."""
    if "catii" in _loaded:
        return _loaded["catii"]
    src = os.path.join(REPO, "src")
    if src not in sys.path:
        sys.path.insert(0, src)
    mod = load_kernels("plain")
    sys.modules["catii.set_operations"] = mod
    import catii  # noqa
    if not os.path.realpath(catii.__file__).startswith(os.path.realpath(src)):
        raise Infra("catii imported from %s, not from %s" % (catii.__file__, src))
    import catii.set_operations as so
    if so is not mod:
        raise Infra("stale in-tree set_operations was imported instead of the fresh build")
    _loaded["catii"] = catii
    return catii


# ----------------------------------------------------------------------------
# Lean: build, audit, driver
# ----------------------------------------------------------------------------
class _Lock:
    def __enter__(self):
        os.makedirs(os.path.join(VERIF, ".cache"), exist_ok=True)
        self.f = open(os.path.join(VERIF, ".cache", "lake.lock"), "w")
        fcntl.flock(self.f, fcntl.LOCK_EX)

    def __exit__(self, *a):
        fcntl.flock(self.f, fcntl.LOCK_UN)
        self.f.close()


def lake_build(targets, clean=False, timeout=3000):
    with _Lock():
        if clean:
            subprocess.run(["lake", "clean"], cwd=LEAN, capture_output=True)
        t0 = time.time()
        try:
            p = subprocess.run(["lake", "build"] + list(targets), cwd=LEAN,
                               capture_output=True, text=True, timeout=timeout)
        except subprocess.TimeoutExpired:
            raise Infra("lake build timed out")
        return p.returncode == 0, (p.stdout + p.stderr), time.time() - t0


def strip_comments(text):
    # remove /- ... -/ (nested not handled beyond one level; doc comments included) and -- comments
    out, i, depth = [], 0, 0
    while i < len(text):
        if text.startswith("/-", i):
            depth += 1
            i += 2
        elif text.startswith("-/", i) and depth:
            depth -= 1
            i += 2
        elif depth:
            if text[i] == "\n":
                out.append("\n")
            i += 1
        elif text.startswith("--", i):
            while i < len(text) and text[i] != "\n":
                i += 1
        else:
            out.append(text[i])
            i += 1
    return "".join(out)


def lean_files_of(modules):
    """Transitive closure of project-local imports of the given modules -> file paths."""
    seen, todo = {}, list(modules)
    while todo:
        m = todo.pop()
        if m in seen:
            continue
        path = os.path.join(LEAN, *m.split(".")) + ".lean"
        if not os.path.exists(path):
            continue
        seen[m] = path
        for line in open(path, encoding="utf-8"):
            mm = re.match(r"\s*import\s+(\S+)", line)
            if mm and mm.group(1).split(".")[0] in ("CatiiModel", "CatiiProofs", "CatiiProps"):
                todo.append(mm.group(1))
    return seen


def theorems_of(module):
    """Names (fully qualified) of the theorems declared in a CatiiProps module."""
    path = os.path.join(LEAN, *module.split(".")) + ".lean"
    text = strip_comments(open(path, encoding="utf-8").read())
    ns, names = [], []
    for line in text.splitlines():
        m = re.match(r"\s*namespace\s+(\S+)", line)
        if m:
            ns.append(m.group(1))
            continue
        m = re.match(r"\s*end\s+(\S+)", line)
        if m and ns and ns[-1] == m.group(1):
            ns.pop()
            continue
        m = re.match(r"\s*(?:@\[[^\]]*\]\s*)?(?:private\s+|protected\s+)?theorem\s+(\S+)", line)
        if m:
            names.append(".".join(ns + [m.group(1)]))
    return names


def audit(prop_id, modules):
    """Forbidden-token grep over the import closure + `#print axioms` for every property theorem.

    Returns dict(obligations, discharged, axioms{thm: [..]}, problems[..]).
    """
    problems = []
    files = lean_files_of(modules)
    for m, path in files.items():
        text = strip_comments(open(path, encoding="utf-8").read())
        for n, line in enumerate(text.splitlines(), 1):
            if FORBIDDEN.search(line):
                problems.append("%s:%d forbidden token: %s" % (m, n, line.strip()[:80]))
    thms = []
    for m in modules:
        thms += theorems_of(m)
    audit_path = os.path.join(LEAN, "Audit_%s.lean" % prop_id)
    with open(audit_path, "w", encoding="utf-8") as f:
        for m in modules:
            f.write("import %s\n" % m)
        for t in thms:
            f.write("#print axioms %s\n" % t)
    with _Lock():
        p = subprocess.run(["lake", "env", "lean", audit_path], cwd=LEAN, capture_output=True, text=True)
    out = p.stdout + p.stderr
    axioms = {}
    for t in thms:
        m = re.search(r"'%s' depends on axioms: \[([^\]]*)\]" % re.escape(t), out)
        if m:
            axioms[t] = [a.strip() for a in m.group(1).replace("\n", " ").split(",") if a.strip()]
        elif re.search(r"'%s' does not depend on any axioms" % re.escape(t), out):
            axioms[t] = []
        else:
            problems.append("no axiom report for %s" % t)
    discharged = 0
    for t in thms:
        if t in axioms and set(axioms[t]) <= ALLOWED_AXIOMS:
            discharged += 1
        elif t in axioms:
            problems.append("%s depends on %s" % (t, axioms[t]))
    if p.returncode != 0:
        problems.append("audit file failed: " + out[-500:])
    try:
        os.remove(audit_path)
    except OSError:
        pass
    return dict(obligations=len(thms), discharged=discharged, axioms=axioms, problems=problems,
                files=sorted(files))


class Model:
    """Batch line-protocol client of the Lean driver (`lake env lean --run Driver/Main.lean`)."""

    def __init__(self):
        self.calls = 0

    def run(self, requests, timeout=1800, driver="Driver/Main.lean"):
        if not requests:
            return []
        data = "\n".join(json.dumps(r, separators=(",", ":")) for r in requests) + "\n"
        with _Lock():
            pass  # wait for any build in progress
        try:
            p = subprocess.run(["lake", "env", "lean", "--run", driver], cwd=LEAN,
                               input=data, capture_output=True, text=True, timeout=timeout)
        except subprocess.TimeoutExpired:
            raise Infra("model driver timed out")
        lines = [l for l in p.stdout.split("\n") if l.strip()]
        if p.returncode != 0 or len(lines) != len(requests):
            raise ModelBroken("driver rc=%s, %d answers for %d requests: %s" % (
                p.returncode, len(lines), len(requests), (p.stderr or p.stdout)[-800:]))
        self.calls += len(requests)
        return [json.loads(l) for l in lines]


class ModelBroken(Exception):
    """The model driver does not build/run (a broken tie, not a violation by itself)."""


# ----------------------------------------------------------------------------
# run context
# ----------------------------------------------------------------------------
def jhash(x):
    return hashlib.sha1(json.dumps(x, sort_keys=True, default=str).encode()).hexdigest()[:16]


class Ctx:
    def __init__(self, prop_id, tier, seed, scale=None, oracle_only=False):
        self.prop_id = prop_id
        self.tier = tier
        self.seed = seed
        self.rng = random.Random("%s-%s" % (prop_id, seed))
        self.scale = scale if scale is not None else (int(os.environ.get("VERIF_SCALE") or 60) if tier == "thorough" else 1)
        self.oracle_only = oracle_only
        self.model = Model()
        self.evaluations = 0
        self.nontrivial = set()
        self.samples = []
        self.dist = {}
        self.oracle_failures = []   # dict(what, case, cls)
        self.corr_failures = []     # dict(what, case)
        self.exhaustive = []
        self.notes = []
        self.t0 = time.time()

    # bookkeeping -----------------------------------------------------------
    def case(self, case, nontrivial=True, keep=False):
        self.evaluations += 1
        if nontrivial:
            self.nontrivial.add(jhash(case))
        if keep or len(self.samples) < 3 or (self.evaluations % 997 == 0 and len(self.samples) < 12):
            self.samples.append(case)

    def hit(self, key, n=1):
        self.dist[key] = self.dist.get(key, 0) + n

    def oracle_fail(self, what, case, cls=None):
        if len(self.oracle_failures) < 200:
            self.oracle_failures.append(dict(what=what, case=case, cls=cls,
                                             run=dict(seed=self.seed, scale=self.scale, tier=self.tier)))

    def corr_fail(self, what, case):
        if len(self.corr_failures) < 200:
            self.corr_failures.append(dict(what=what, case=case))

    def n(self, quick, thorough=None):
        """budget helper"""
        if self.tier == "thorough":
            return thorough if thorough is not None else quick * self.scale
        return quick if self.scale == 1 else quick * self.scale


def load_findings():
    path = os.path.join(VERIF, "known_findings.json")
    try:
        return json.load(open(path))["findings"]
    except FileNotFoundError:
        return []


def write_json(path, obj):
    os.makedirs(os.path.dirname(path), exist_ok=True)
    tmp = path + ".tmp"
    with open(tmp, "w") as f:
        json.dump(obj, f, indent=1, sort_keys=True, default=str)
        f.write("\n")
    os.replace(tmp, path)
