"""Shared aggregate machinery (C03/C04/C05/C13/C16/C17/C20): case generators on the exact "dyadic" stream,
calls into ccube/xcube under each report format, a direct per-cell computation in Fractions (the oracle),
and the model request for one fact column."""
import itertools
from fractions import Fraction

import numpy as np

import gen_cube as G

FUNCS = ["count", "valid_count", "sum", "mean"]


def dyadic(rng, lo=-64, hi=64):
    return rng.randrange(lo, hi + 1) / 8.0


def gen_case(rng, multi_axis=False, k=None, N=None, general=False, wide=None, wide_extents=None):
    """wide: None | 'u8' | 'u16' - extents (or their product) straddle the 2^8 / 2^16 boundary of the narrow
    coordinate types the array cube picks"""
    if wide:
        base = G.gen_wide_dims(rng, big=(wide == "u16"), extents=wide_extents)
    else:
        base = G.gen_dims(rng, k=k, N=N, max_extent=4, multi_axis=multi_axis, max_hi=3)
    N = base["N"]
    K = rng.choice([None, None, 1, 2, 3])              # fact columns: None = 1-D fact
    fshape = (N,) if K is None else (N, K)
    if general:
        fvals = np.array([rng.uniform(-1e3, 1e3) for _ in range(int(np.prod(fshape)))]).reshape(fshape)
    else:
        fvals = np.array([dyadic(rng) for _ in range(int(np.prod(fshape)))]).reshape(fshape)
    pm = rng.choice([0.0, 0.15, 0.5, 1.0])
    fvalid = np.array([rng.random() >= pm for _ in range(int(np.prod(fshape)))], dtype=bool).reshape(fshape)
    form = rng.choice(["nan", "pair", "pair_int"])
    if form == "pair_int":
        fvals = np.round(fvals).astype(np.int64)
    wkind = rng.choice(["none", "none", "scalar", "array", "array_valid"])
    if general == "residue":     # weights whose partial sums are inexact: differencing leaves ~1e-17 where a cell is empty
        wkind = rng.choice(["array", "array_valid"])
    if wkind == "none":
        w = None
    elif wkind == "scalar":
        w = ("scalar", rng.choice([0.0, 0.5, 1.0, 2.0, 2.5]), True)
    else:
        wv = np.array([rng.choice([0.0, 0.125, 0.5, 1.0, 1.0, 2.0, 3.5]) for _ in range(N)])
        if general == "residue":
            wv = np.array([rng.choice([0.1, 0.2, 0.3, 0.7, 1.1, 2.3]) for _ in range(N)])
        elif general:
            wv = np.array([rng.uniform(0, 5) for _ in range(N)])
        wok = np.array([rng.random() >= rng.choice([0.0, 0.0, 0.2]) for _ in range(N)], dtype=bool)
        w = (wkind, wv, wok)
    base.update(fact_vals=fvals, fact_valid=fvalid, fact_form=form, weights=w,
                ignore=rng.random() < 0.5, K=K, general=general, untraced=rng.random() < 0.3)
    return base


def residue_case(rng):
    """two one-axis dims, inexact weights, and an EMPTY cell inside the common category of a dimension: its weight sums
    are reconstructed by differencing the margins and come out as rounding residue rather than 0 — the cell must still
    be missing, in every report format and for both cube types"""
    for _attempt in range(60):
        case = _residue_candidate(rng)
        if _residue_visible(case):
            return case
    return case


def _residue_visible(case):
    """does differencing the margin of the emptied cell's column leave a non-zero float (summing in row order, as the
    fill loops do)?  Only then can a missing-rule slip show; otherwise draw again."""
    j, c, v = case["empty_common_cell"]
    o = 1 - j
    dj, do = case["dense"][j], case["dense"][o]
    w = case["weights"][1].astype(float)
    ok = case["weights"][2] if isinstance(case["weights"][2], np.ndarray) else np.ones(len(w), dtype=bool)
    fk = case["fact_valid"] if case["fact_valid"].ndim == 1 else case["fact_valid"][:, 0]
    margin, cells = 0.0, {}
    for r in range(len(dj)):
        if do[r] == v and ok[r] and fk[r]:
            margin += w[r]
            cells[int(dj[r])] = cells.get(int(dj[r]), 0.0) + w[r]
    if len(cells) < 2:
        return False
    res = margin
    for u in sorted(cells):
        res -= cells[u]
    res2 = margin - float(np.sum(np.array([cells[u] for u in sorted(cells)])))
    return res != 0.0 and res2 != 0.0


def _residue_candidate(rng):
    while True:
        case = gen_case(rng, k=2, N=rng.choice([9, 14, 20, 25]), general="residue")
        if all(e >= 2 for e in case["extents"]):
            break
    j = rng.randrange(2)
    o = 1 - j
    dj, do = case["dense"][j], case["dense"][o]
    c = rng.randrange(case["extents"][j])
    case["commons"][j] = c
    if not (dj == c).any():
        dj[rng.randrange(len(dj))] = c
    if (dj == c).all():
        dj[rng.randrange(len(dj))] = (c + 1) % case["extents"][j]
    v = rng.randrange(case["extents"][o])
    for r in range(len(dj)):
        if dj[r] == c and do[r] == v:
            do[r] = (v + 1 + rng.randrange(case["extents"][o] - 1)) % case["extents"][o]
    other = [r for r in range(len(dj)) if dj[r] != c]
    do[rng.choice(other)] = v       # the category itself still occurs, outside the common slice
    case["modes"] = ["forced"] * 2
    case["empty_common_cell"] = [int(j), int(c), int(v)]
    return case


def by_category_missing(rng, case):
    """make the fact (or the weight) missing on exactly the rows of one or two categories of one dimension and valid
    elsewhere: whole cells without a valid row next to cells without a missing one (propagating policy)"""
    if not case["dense"] or case["N"] == 0:
        return case
    a = rng.randrange(len(case["dense"]))
    d = case["dense"][a]
    col = d if d.ndim == 1 else d.reshape(d.shape[0], -1)[:, 0]
    cats = sorted(set(int(v) for v in col.tolist()))
    uncommon = [c for c in cats if c != case["commons"][a]]
    if uncommon and rng.random() < 0.7:      # mostly non-common categories: their cells are filled by the walk
        cats = uncommon
    hit = set(rng.sample(cats, min(len(cats), rng.choice([1, 1, 2]))))
    rows = np.array([int(v) in hit for v in col.tolist()], dtype=bool)
    fv = np.ones_like(case["fact_valid"], dtype=bool)
    if rng.random() < 0.75 or case["weights"] is None or case["weights"][0] == "scalar":
        fv[rows] = False
    else:
        w = case["weights"]
        case["weights"] = (w[0], w[1], ~rows)
    case["fact_valid"] = fv
    case["ignore"] = False
    return case


def fact_arg(case):
    v, ok, form = case["fact_vals"], case["fact_valid"], case["fact_form"]
    if form == "nan":
        a = v.astype(float).copy()
        a[~ok] = np.nan
        return a
    g = v.copy()
    if form == "pair":
        g = g.astype(float)
        g[~ok] = np.where(np.arange(int((~ok).sum())) % 2 == 0, np.nan, 12345.5)   # garbage under False
    else:
        g[~ok] = -99999
    return (g, ok.copy())


def weights_arg(case):
    w = case["weights"]
    if w is None:
        return None
    if w[0] == "scalar":
        return w[1]
    if w[0] == "array":
        a = w[1].astype(float).copy()
        a[~w[2]] = np.nan
        return a
    g = w[1].astype(float).copy()
    # what sits under a False validity is a placeholder of the caller's choosing (NaN, a large number, a negative sentinel)
    g[~w[2]] = (np.nan, 777.0, -999.0)[len(g) % 3]
    return (g, w[2].copy())


RETS = [("nan", None), ("pair", 0), ("pair", -1), ("pair", 0.5), ("plain", 0)]


def ret_arg(ret):
    if ret[0] == "nan":
        return float("nan")
    if ret[0] == "pair":
        return (ret[1], False)
    return ret[1]


def call(cube, func, case, ret):
    """returns (values float ndarray, missing bool ndarray | None for the plain format)"""
    kw = dict(ignore_missing=case["ignore"], return_missing_as=ret_arg(ret))
    if case.get("share_args"):     # the caller keeps ONE fact / weights object and passes it to every call of the case
        if "_args" not in case:
            case["_args"] = (fact_arg(case), weights_arg(case))
        f, w = case["_args"]
    else:
        f, w = fact_arg(case), weights_arg(case)
    if type(cube).__name__ == "ccube" and case.get("untraced"):
        # the aggregate-function OBJECT handed to calculate(), built with tracing=False (the cube's shortcut methods
        # always build it with the default tracing=True; a caller who wants no timing overhead does this)
        from catii import ffuncs
        if func == "count":
            fo = ffuncs.ffunc_count(weights=w, N=(None if case["dense"] else case["N"]), tracing=False, **kw)
        else:
            fo = getattr(ffuncs, "ffunc_" + func)(f, weights=w, tracing=False, **kw)
        out = cube.calculate([fo])[0]
    elif func == "count":
        if not case["dense"]:
            kw["N"] = case["N"]
        out = cube.count(weights=w, **kw)
    else:
        out = getattr(cube, func)(f, weights=w, **kw)
    if ret[0] == "pair":
        vals, valid = out
        return np.asarray(vals, dtype=float), ~np.asarray(valid, dtype=bool)
    vals = np.asarray(out, dtype=float)
    if ret[0] == "nan":
        return vals, np.isnan(vals)
    return vals, None


def row_ok_val(case, func, col):
    """per-row (valid?, numerator term, denominator term) as Fractions for fact column `col`"""
    N = case["N"]
    w = case["weights"]
    out = []
    for r in range(N):
        if w is None:
            wok, wv = True, Fraction(1)
        elif w[0] == "scalar":
            wok, wv = True, Fraction(w[1])
        else:
            wok, wv = bool(w[2][r]), Fraction(float(w[1][r]))
        if func == "count":
            ok = wok
            num = wv
        else:
            fok = bool(case["fact_valid"][r] if col is None else case["fact_valid"][r, col])
            fv = case["fact_vals"][r] if col is None else case["fact_vals"][r, col]
            ok = fok and wok
            num = wv if func == "valid_count" else Fraction(float(fv)) * wv
        out.append((ok, num if ok else Fraction(0), wv if ok else Fraction(0)))
    return out


def direct_cells(case, func, cols_1d, shape, col):
    """{cell: (value Fraction | None, missing bool)} by direct computation over the rows of each cell"""
    N = case["N"]
    rows = row_ok_val(case, func, col)
    cells = {}
    groups = {}
    for r in range(N):
        groups.setdefault(tuple(int(c[r]) for c in cols_1d), []).append(r)
    for cell in itertools.product(*[range(s) for s in shape]):
        rs = groups.get(cell, ())
        nvalid = sum(1 for r in rs if rows[r][0])
        nmiss = len(rs) - nvalid
        num = sum((rows[r][1] for r in rs), Fraction(0))
        den = sum((rows[r][2] for r in rs), Fraction(0))
        if func == "count" and case["weights"] is None:
            missing = len(rs) == 0
            val = Fraction(len(rs))
        else:
            missing = nvalid == 0 or (not case["ignore"] and nmiss != 0)
            val = num
            if func == "mean":
                if den == 0:
                    missing = True
                    val = None
                else:
                    val = num / den
        cells[cell] = (val, missing)
    return cells


def grand_total(case, func):
    rows = row_ok_val(case, func, None if case["K"] is None else 0)
    return float(sum(abs(x[1]) for x in rows)) + 1.0


def rat(x):
    f = Fraction(float(x)) if not isinstance(x, Fraction) else x
    return [f.numerator, f.denominator]


def model_spec(case, func, col, ret, tol):
    N = case["N"]
    spec = {"func": func, "ignore_missing": bool(case["ignore"])}
    if func != "count":
        fv = case["fact_vals"] if col is None else case["fact_vals"][:, col]
        fk = case["fact_valid"] if col is None else case["fact_valid"][:, col]
        spec["fact"] = {"vals": [rat(x) for x in fv.tolist()], "valid": [bool(b) for b in fk.tolist()]}
    w = case["weights"]
    if w is not None:
        if w[0] == "scalar":
            spec["weights"] = {"scalar": rat(w[1]), "valid": True}
        else:
            spec["weights"] = {"vals": [rat(x) for x in w[1].tolist()], "valid": [bool(b) for b in w[2].tolist()]}
    if ret[0] == "pair":
        spec["ret"] = {"sentinel": rat(ret[1])}
    elif ret[0] == "plain":
        spec["ret"] = {"plain": rat(ret[1])}
    if tol:
        spec["zero_tol"] = [1, 10**8]
    return spec


def small_desc(case, extra=None):
    d = {"dense": [x.tolist() for x in case["dense"]], "commons": case["commons"], "N": case["N"],
         "fact": None if case.get("fact_vals") is None else {"form": case["fact_form"], "vals": case["fact_vals"].tolist(),
                                                               "valid": case["fact_valid"].tolist()},
         "weights": None if case["weights"] is None else [case["weights"][0]] + [
             (x.tolist() if hasattr(x, "tolist") else x) for x in case["weights"][1:]],
         "ignore_missing": case["ignore"]}
    if extra:
        d.update(extra)
    if len(str(d)) > 1200:
        d = {"k": len(case["dense"]), "N": case["N"], "commons": case["commons"],
             "dim_shapes": [list(x.shape) for x in case["dense"]], "weights": None if case["weights"] is None else case["weights"][0],
             "fact_form": case["fact_form"], "K": case["K"], "ignore_missing": case["ignore"], **(extra or {})}
    return d
