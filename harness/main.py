"""./check Cxx [--tier quick|thorough] [--replay PATH]   (see DESIGN §2.4)"""
import argparse
import importlib
import json
import os
import sys
import time
import traceback

sys.path.insert(0, os.path.dirname(os.path.abspath(__file__)))
import core  # noqa: E402
import warnings
warnings.simplefilter("ignore")

TRUSTED_BASE = [
    "Lean 4.33.0 kernel (axioms allowed: propext, Classical.choice, Quot.sound; audited by #print axioms each run)",
    "statements in lean/CatiiProps say what the property says (human-read)",
    "tools/translate.py (Python AST -> Lean for fit_dtype and the INDX tables/constants)",
    "hand-written models in lean/CatiiModel: fidelity checked by the correspondence harness on generated inputs only",
    "harness/ (generators, canonicalisation, oracles), tools/buildext.py (kernels rebuilt from the current .pyx)",
    "modelled not verified: NumPy primitives, CPython dict/struct/mmap, Cython/gcc lowering, ThreadPool/GIL, IEEE-754",
]


def emit_violation(prop, replay):
    print("VIOLATION property=%s replay=%s" % (prop, replay), flush=True)


def run_guarded(mod, ctx, prop_id):
    """mod.run(ctx); an exception that the LIBRARY raised and that reached the check through a call it does not guard is a
    finding about the library (on the unchanged tree every stream of every check runs through), not an infrastructure error:
    it is recorded as a failure and the stream ends there.  Exceptions raised by the harness itself still propagate."""
    import traceback
    try:
        mod.run(ctx)
    except (core.ModelBroken, core.Infra, KeyboardInterrupt, SystemExit, MemoryError):
        raise
    except Exception as e:
        tb = traceback.extract_tb(e.__traceback__)
        lib = [fr for fr in tb if "/catii/" in fr.filename.replace("\\", "/") and "/harness/" not in fr.filename]
        if not lib or "/harness/" in tb[-1].filename:
            raise
        har = [fr for fr in tb if "/harness/" in fr.filename]
        where = "%s:%d" % (os.path.basename(har[-1].filename), har[-1].lineno) if har else "?"
        ctx.oracle_fail("the library raised %s: %s (%s:%d %s) on an input of the check's stream, reached from %s - on the unchanged "
                        "tree this stream runs through" % (type(e).__name__, str(e)[:80], os.path.basename(lib[-1].filename),
                                                          lib[-1].lineno, lib[-1].name, where),
                        {"unguarded": where, "exception": type(e).__name__}, cls="%s-raises" % prop_id)


def main(argv=None):
    ap = argparse.ArgumentParser()
    ap.add_argument("prop")
    ap.add_argument("--tier", default=os.environ.get("VERIF_TIER", "quick"), choices=["quick", "thorough"])
    ap.add_argument("--replay")
    ap.add_argument("--no-proof", action="store_true", help="debug: skip lake build/audit")
    a = ap.parse_args(argv)
    prop_id = a.prop.upper()
    seed = int(os.environ.get("VERIF_SEED", "0") or 0)
    t0 = time.time()
    try:
        mod = importlib.import_module("props.%s" % prop_id.lower())
    except ImportError as e:
        print("no check for %s: %s" % (prop_id, e))
        return 2

    if a.replay:
        rep = json.load(open(a.replay))
        if rep.get("kind") == "crash":
            print("replay %s: records an interpreter crash during the check; re-run ./check %s" % (a.replay, prop_id))
            return main([prop_id, "--tier", rep.get("tier", "quick")])
        if rep.get("kind") == "unproved":
            print("replay %s: records a broken proof obligation / correspondence (no failing input); re-run ./check %s" % (
                a.replay, prop_id))
            return main([prop_id, "--tier", rep.get("tier", "quick")])
        ctx = core.Ctx(prop_id, a.tier, seed)
        ok = True if (isinstance(rep.get("case"), dict) and rep["case"].get("unguarded")) else mod.replay(ctx, rep)
        if ok and rep.get("run"):
            # deterministic re-generation: the same (seed, scale, tier) re-creates the same inputs on the real code
            core.regen()
            r = rep["run"]
            ctx = core.Ctx(prop_id, r["tier"], r["seed"], scale=r["scale"], oracle_only=True)
            run_guarded(mod, ctx, prop_id)
            same = [f for f in ctx.oracle_failures if f["cls"] == rep.get("cls") and f["what"] == rep.get("what")]
            ok = not same
            if same:
                print("  reproduced: " + str(same[0]["what"])[:400])
        print("replay %s: %s" % (a.replay, "property holds on this input" if ok else "FAILS"))
        return 0 if ok else 1

    broken = []  # broken ties / proof obligations (strings)
    try:
        # 1 regen ------------------------------------------------------------
        ok, msg, failed = core.regen()
        uses = getattr(mod, "USES_TRANSLATOR", False)
        uses = set(failed) if uses is True else set(uses or [])
        mine = {k: v for k, v in failed.items() if k in uses or k == "translator"}
        if mine:
            broken.append("translator: " + "; ".join("%s: %s" % kv for kv in sorted(mine.items())))
        other = {k: v for k, v in failed.items() if k not in mine}
        if other:
            print("note: the translator could not follow a definition this property does not use: " + "; ".join(sorted(other)))
        # 2 proof ------------------------------------------------------------
        aud = dict(obligations=0, discharged=0, axioms={}, problems=[], files=[])
        build_s = 0.0
        model_ok = True
        if not a.no_proof:
            okb, log, build_s = core.lake_build(mod.LEAN_MODULES, clean=False)
            if not okb:
                broken.append("lake build %s failed:\n%s" % (" ".join(mod.LEAN_MODULES), log[-1500:]))
                aud["obligations"] = len([t for m in mod.LEAN_MODULES for t in core.theorems_of(m)])
            else:
                aud = core.audit(prop_id, mod.LEAN_MODULES)
                if aud["problems"]:
                    broken.append("audit: " + "; ".join(aud["problems"][:5]))
                if a.tier == "thorough":
                    import subprocess
                    with core._Lock():
                        p = subprocess.run(["lake", "env", "leanchecker"] + mod.LEAN_MODULES, cwd=core.LEAN,
                                           capture_output=True, text=True)
                    aud["leanchecker_rc"] = p.returncode
                    if p.returncode != 0:
                        broken.append("leanchecker: " + (p.stdout + p.stderr)[-500:])
            okd, logd, _ = core.lake_build(["CatiiModel"])
            model_ok = okd
            if not okd and getattr(mod, "USES_MODEL", True):
                broken.append("model library does not build:\n" + logd[-1000:])
        # 3+4 correspondence and oracle ---------------------------------------
        ctx = core.Ctx(prop_id, a.tier, seed, oracle_only=not model_ok)
        try:
            run_guarded(mod, ctx, prop_id)
        except core.ModelBroken as e:
            broken.append("model driver: %s" % e)
            ctx = core.Ctx(prop_id, a.tier, seed, oracle_only=True)
            run_guarded(mod, ctx, prop_id)
        if ctx.corr_failures:
            broken.append("correspondence: %d disagreement(s); first: %s" % (
                len(ctx.corr_failures), json.dumps(ctx.corr_failures[0], default=str)[:600]))
        # 5 verdict ------------------------------------------------------------
        findings = [f for f in core.load_findings() if f["property"] == prop_id]
        known = {f["cls"]: f for f in findings if f.get("status") == "known"}
        new_fail = [f for f in ctx.oracle_failures if f["cls"] not in known]
        known_hit = {}
        for f in ctx.oracle_failures:
            if f["cls"] in known:
                known_hit.setdefault(f["cls"], f)
        searched = False
        if broken and not new_fail:
            # extended failing-input search on the real code (oracle only, 10x budget)
            searched = True
            print("proof obligation / correspondence broken; searching the implementation for a failing input ...",
                  flush=True)
            ctx2 = core.Ctx(prop_id, a.tier, seed + 1, scale=max(10, min(ctx.scale * 10, 200)), oracle_only=True)
            hints = [f["case"] for f in ctx.corr_failures]
            ctx2.hints = hints
            try:
                run_guarded(mod, ctx2, prop_id)
            except core.ModelBroken:
                pass
            new_fail = [f for f in ctx2.oracle_failures if f["cls"] not in known]
            ctx.evaluations += ctx2.evaluations
            ctx.nontrivial |= ctx2.nontrivial

        rc = 0
        os.makedirs(os.path.join(core.VERIF, "replays"), exist_ok=True)
        if new_fail:
            f0 = new_fail[0]
            path = os.path.join("replays", "%s-%s.json" % (prop_id, core.jhash(f0)))
            core.write_json(os.path.join(core.VERIF, path), dict(
                property=prop_id, kind="failing-input", what=f0["what"], case=f0["case"], cls=f0["cls"],
                broken_obligations=broken, seed=seed, tier=a.tier, run=f0.get("run"),
                how_to_replay="./check %s --replay %s" % (prop_id, path)))
            emit_violation(prop_id, path)
            print("  " + str(f0["what"])[:400])
            rc = 1
        elif broken:
            path = os.path.join("replays", "%s-unproved.json" % prop_id)
            core.write_json(os.path.join(core.VERIF, path), dict(
                property=prop_id, kind="unproved", broken_obligations=broken,
                corr_failures=ctx.corr_failures[:20], seed=seed, tier=a.tier,
                note="no failing input of the property itself was found on the implementation"))
            print("VIOLATION property=%s replay=%s no-failing-input-found" % (prop_id, path), flush=True)
            for b in broken:
                print("  broken: " + b[:600])
            rc = 1
        for cls, f in sorted(known_hit.items()):
            print("KNOWN-FINDING: property=%s %s: %s" % (prop_id, cls, known[cls]["text"]))

        # evidence ---------------------------------------------------------------
        wall = time.time() - t0
        cov = dict(
            obligations=max(aud["obligations"], 1) if not a.no_proof else 1,
            discharged=aud["discharged"] if not broken or aud["discharged"] else 0,
            checker_cmd="cd lean && lake build %s && lake env lean Audit_%s.lean  (#print axioms per theorem)%s" % (
                " ".join(mod.LEAN_MODULES), prop_id,
                " && lake env leanchecker " + " ".join(mod.LEAN_MODULES) if a.tier == "thorough" else ""),
            trusted_base=TRUSTED_BASE + list(getattr(mod, "TRUSTED", [])),
            theorems=aud["axioms"],
            lean_files=aud.get("files", []),
            build_s=round(build_s, 2),
            evaluations=ctx.evaluations,
            distinct_nontrivial=len(ctx.nontrivial),
            rule=getattr(mod, "RULE", ""),
            samples=ctx.samples[:12] or [{"note": "no cases"}],
            distribution=ctx.dist,
            exhaustive_spaces=ctx.exhaustive,
            exhaustive=bool(ctx.exhaustive),
            model_requests=ctx.model.calls,
            correspondence_disagreements=len(ctx.corr_failures),
            oracle_failures=len(ctx.oracle_failures),
            known_findings_hit=sorted(known_hit),
            broken_obligations=broken,
            extended_search=searched,
            notes=ctx.notes,
        )
        if cov["discharged"] < 1:
            # schema: a proof-level record needs discharged >= 1; on a broken build report the generic counts instead
            del cov["discharged"]
            cov["discharged_none"] = True
        ev = dict(property_id=prop_id, tier=a.tier, seed=seed, level="proof", coverage=cov,
                  assumptions=list(getattr(mod, "ASSUMPTIONS", [])), wall_s=round(wall, 2),
                  violations=len(new_fail) + (1 if (broken and not new_fail) else 0))
        core.write_json(os.path.join(os.environ.get("VERIF_EVIDENCE_DIR") or os.path.join(core.VERIF, "evidence"), "%s.json" % prop_id), ev)
        print("%s %s: theorems %d/%d, evaluations %d (distinct non-trivial %d), model requests %d, %.1fs -> %s" % (
            prop_id, a.tier, aud["discharged"], aud["obligations"], ctx.evaluations, len(ctx.nontrivial),
            ctx.model.calls, wall, "OK" if rc == 0 else "VIOLATION"))
        return rc
    except core.Infra as e:
        print("INFRA: %s" % e)
        return 2
    except Exception:
        traceback.print_exc()
        return 2


if __name__ == "__main__":
    sys.exit(main())
