"""Generators for cube dimensions (C02/C05/C13/C14 and the aggregate properties)."""
import itertools

import numpy as np


def make_index(dense, common):
    """Build an iindex directly from a dense integer array (1..3 axes) and a chosen common value.
    Entries are inserted in ascending key order."""
    from catii import iindex
    a = np.asarray(dense)
    entries = {}
    if a.ndim == 1:
        for v in sorted(set(a.tolist())):
            if v != common:
                entries[(int(v),)] = np.nonzero(a == v)[0].astype(np.uint32)
    else:
        flat_vals = sorted(set(a.reshape(-1).tolist()))
        for v in flat_vals:
            if v == common:
                continue
            for hi in itertools.product(*[range(e) for e in a.shape[1:]]):
                col = a[(slice(None),) + hi]
                rows = np.nonzero(col == v)[0].astype(np.uint32)
                if len(rows):
                    entries[(int(v),) + tuple(hi)] = rows
    return iindex(entries, int(common), tuple(int(x) for x in a.shape))


def gen_dense(rng, N, extent, hi_shape=(), skew=None):
    """dense values in 0..extent-1 with a random skew so that commons can be frequent / rare / absent"""
    if skew is None:
        skew = rng.choice(["uniform", "one_dominant", "missing_some", "constant"])
    vals = list(range(extent))
    if skew == "one_dominant":
        w = [1.0] * extent
        w[rng.randrange(extent)] = 4.0 * extent
    elif skew == "missing_some":
        w = [rng.choice([0.0, 1.0]) for _ in vals]
        if not any(w):
            w[rng.randrange(extent)] = 1.0
    elif skew == "constant":
        w = [0.0] * extent
        w[rng.randrange(extent)] = 1.0
    else:
        w = [1.0] * extent
    shape = (N,) + tuple(hi_shape)
    n = int(np.prod(shape)) if shape else 1
    flat = rng.choices(vals, weights=w, k=n)
    return np.array(flat, dtype=np.int64).reshape(shape)


def pick_common(rng, dense, extent, mode=None):
    vals, counts = np.unique(dense.reshape(-1), return_counts=True)
    present = vals.tolist()
    absent = [v for v in range(extent) if v not in present]
    if mode is None:
        mode = rng.choice(["frequent", "rare", "absent", "any"])
    if mode == "frequent" and present:
        return int(vals[int(np.argmax(counts))]), mode
    if mode == "rare" and present:
        return int(vals[int(np.argmin(counts))]), mode
    if mode == "absent" and absent:
        return int(rng.choice(absent)), mode
    return int(rng.randrange(extent)), "any"


def gen_dims(rng, k=None, N=None, max_extent=5, multi_axis=False, max_hi=3):
    """returns dict(dense=[arrays], commons=[..], extents=[..], modes=[..])"""
    if k is None:
        k = rng.choice([0, 1, 1, 2, 2, 2, 3, 3, 4])
    if N is None:
        N = rng.choice([0, 1, 2, 3, 5, 8, 13, 25, 40])
    dense, commons, extents, modes = [], [], [], []
    for _ in range(k):
        extent = rng.randrange(1, max_extent + 1)
        hi = ()
        if multi_axis and rng.random() < 0.5:
            hi = tuple(rng.randrange(1, max_hi + 1) for _ in range(rng.choice([1, 1, 2])))
        d = gen_dense(rng, N, extent, hi)
        c, mode = pick_common(rng, d, extent)
        dense.append(d); commons.append(c); extents.append(extent); modes.append(mode)
    return dict(dense=dense, commons=commons, extents=extents, modes=modes, N=N)


def gen_wide_dims(rng, big=False, extents=None):
    """1 or 2 one-axis dims whose extent (or product of extents) straddles 2^8 (big: 2^16); rows concentrate on a
    few categories at both ends of the range so that high-numbered cells hold several rows"""
    B = 65536 if big else 256
    k = rng.choice([1, 1, 2])
    if extents is not None:
        extents = list(extents)
    elif k == 1:
        extents = [rng.choice([B // 2 + 1, B // 2 + 72, B - 1, B, B + 1, B + 44])]
    else:
        a = rng.choice([2, 3, 16, 17])
        extents = [a, B // a + rng.choice([0, 1, 2])]
        rng.shuffle(extents)
    N = rng.choice([24, 60]) if big else rng.choice([60, 200, 400])
    dense, commons, modes = [], [], []
    for e in extents:
        if e <= 20:
            d = gen_dense(rng, N, e)
        else:
            pool = sorted(set([0, 1, e - 1, e - 2, e // 2, e // 2 + 1] + [rng.randrange(e) for _ in range(max(2, N // 8))]))
            d = np.array([rng.choice(pool) for _ in range(N)], dtype=np.int64)
        c, mode = pick_common(rng, d, e)
        dense.append(d); commons.append(c); modes.append(mode)
    return dict(dense=dense, commons=commons, extents=extents, modes=modes, N=N)


def dims_to_model(idx_list):
    """one-axis iindexes -> model dims (entries in dict order)"""
    out = []
    for ix in idx_list:
        out.append({"entries": [[int(k[0]), [int(x) for x in v.tolist()]] for k, v in ix.items()],
                    "common": int(ix.common)})
    return out


def brute_table(dense_1d, shape, N):
    """direct contingency table from 1-D dense columns"""
    t = np.zeros(tuple(shape), dtype=np.int64)
    for r in range(N):
        cell = tuple(int(d[r]) for d in dense_1d)
        if all(0 <= c < s for c, s in zip(cell, shape)):
            t[cell] += 1
    return t


def exhaustive_small(kmax=3, nmax=3, extent=2):
    """every list of k<=kmax one-axis dims over N<=nmax rows with values < extent and every common < extent"""
    for k in range(0, kmax + 1):
        for N in range(0, nmax + 1):
            cols = list(itertools.product(range(extent), repeat=N))
            for dense in itertools.product(cols, repeat=k):
                for commons in itertools.product(range(extent), repeat=k):
                    yield dict(dense=[np.array(d, dtype=np.int64).reshape(N) for d in dense], commons=list(commons),
                               extents=[extent] * k, modes=["enum"] * k, N=N)
