"""Pools and schedulers for C16/C20: a permuting pool, a deterministic seeded scheduler that interleaves worker
tasks at source-line granularity (one thread runs at a time, the next one is drawn from a seeded PRNG at every
traced line of catii code), and helpers to run the real ThreadPool under a microsecond switch interval and a
hard timeout."""
import contextlib
import multiprocessing.pool
import random
import sys
import threading


def _stdlib_chunks(n, chunksize):
    """what multiprocessing.pool.Pool.map does with an explicit chunksize: None / positive -> every item runs;
    0 -> MapResult is complete at once and no task is created (the result is [None] * n); negative -> islice raises"""
    if chunksize is None or chunksize > 0:
        return True
    if chunksize == 0:
        return False
    raise ValueError("Stop argument for islice() must be None or an integer: 0 <= x <= sys.maxsize.")


class PermutedPool:
    """`pool.map` semantics with the tasks executed one after another in a seeded permutation"""

    def __init__(self, seed):
        self.seed = seed
        self.order = None
        self._running = True

    def __call__(self, poolsize):
        # the class is "instantiated" once per pool the library creates: each such pool starts in the running state
        self._running = True
        return self

    def map(self, func, iterable, chunksize=None):
        if not self._running:
            raise ValueError("Pool not running")     # what the stdlib pool says after close() / terminate()
        items = list(iterable)
        if not _stdlib_chunks(len(items), chunksize):
            return [None] * len(items)
        order = list(range(len(items)))
        random.Random(self.seed).shuffle(order)
        self.order = order
        results, first = [None] * len(items), None
        for i in order:
            try:
                results[i] = func(items[i])
            except Exception as e:       # map() runs every task and re-raises afterwards
                if first is None:
                    first = e
        if first is not None:
            raise first
        return results

    def close(self):
        self._running = False

    def terminate(self):
        self._running = False

    def join(self):
        pass


class SeededInterleavingPool:
    """Worker tasks run in real threads, but only the thread holding the baton executes; at every traced line of
    catii code the baton moves, with probability `switch_prob`, to a thread drawn from a seeded PRNG. The interleaving is
    therefore a deterministic function of the seed, at source-line (bytecode-run) granularity. The baton is one
    semaphore per thread (a hand-over wakes exactly one thread)."""

    def __init__(self, seed, switch_prob=0.35):
        self.seed = seed
        self.p = switch_prob
        self.switches = 0

    def __call__(self, poolsize):
        self.poolsize = poolsize
        self._running = True
        return self

    def close(self):
        self._running = False

    def terminate(self):
        self._running = False

    def join(self):
        pass

    def map(self, func, iterable, chunksize=None):
        if not getattr(self, "_running", True):
            raise ValueError("Pool not running")
        items = list(iterable)
        n = len(items)
        if n == 0:
            return []
        if not _stdlib_chunks(n, chunksize):
            return [None] * n
        rng = random.Random(self.seed)
        sems = [threading.Semaphore(0) for _ in range(n)]
        alive = set(range(n))
        results, errors = [None] * n, [None] * n
        done = threading.Semaphore(0)

        def hand_over(i, finished=False):
            """called by the baton holder i: pick the next runner; block until the baton comes back (unless finished)"""
            if finished:
                alive.discard(i)
                if alive:
                    sems[rng.choice(sorted(alive))].release()
                done.release()
                return
            if len(alive) > 1 and rng.random() < self.p:
                j = rng.choice(sorted(alive))
                if j != i:
                    self.switches += 1
                    sems[j].release()
                    sems[i].acquire()

        def worker(i):
            sems[i].acquire()                      # wait for the baton

            def tracer(frame, event, arg):
                if "catii" not in frame.f_code.co_filename:
                    return None
                if event == "line":
                    hand_over(i)
                return tracer

            sys.settrace(tracer)
            try:
                results[i] = func(items[i])
            except BaseException as e:
                errors[i] = e
            finally:
                sys.settrace(None)
                hand_over(i, finished=True)

        threads = [threading.Thread(target=worker, args=(i,), daemon=True) for i in range(n)]
        for t in threads:
            t.start()
        sems[rng.choice(range(n))].release()       # the first baton holder
        for _ in range(n):
            if not done.acquire(timeout=120):
                raise TimeoutError("seeded scheduler: worker did not finish")
        for e in errors:
            if e is not None:
                raise e
        return results


class LostUpdatePool:
    """The diagnostic counters (`ccube.intersection_data_points`, the buckets of `xcube._tracing`) are updated by the worker
    tasks with an unlocked read-modify-write, so under some schedules an update is LOST: task A reads a counter, task B runs
    to completion, A writes back what it read plus its own share.  This pool reaches exactly that end state
    deterministically: tasks run one after the other, and the diagnostics are put back to what they were before the second
    task (B) once B has finished.  Regions are untouched.  The property exempts the counters themselves; what it does not
    exempt is a RESULT (or an exception) that depends on them."""

    def __init__(self, cube):
        self.cube = cube
        self.lost = 0

    def __call__(self, poolsize):
        self._running = True
        return self

    def close(self):
        self._running = False

    def terminate(self):
        self._running = False

    def join(self):
        pass

    def _snapshot(self):
        c = self.cube
        return (getattr(c, "intersection_data_points", None),
                {k: dict(v) for k, v in getattr(c, "_tracing", {}).items()} if isinstance(getattr(c, "_tracing", None), dict) else None)

    def _restore(self, snap):
        c = self.cube
        if snap[0] is not None and hasattr(c, "intersection_data_points"):
            c.intersection_data_points = snap[0]
        if snap[1] is not None and isinstance(getattr(c, "_tracing", None), dict):
            for k, v in snap[1].items():
                if k in c._tracing and isinstance(c._tracing[k], dict):
                    c._tracing[k].update(v)
        self.lost += 1

    def map(self, func, iterable, chunksize=None):
        if not getattr(self, "_running", True):
            raise ValueError("Pool not running")
        items = list(iterable)
        if not _stdlib_chunks(len(items), chunksize):
            return [None] * len(items)
        out = []
        for i, x in enumerate(items):
            snap = self._snapshot() if i == 1 else None
            out.append(func(x))
            if snap is not None:
                self._restore(snap)
        return out


@contextlib.contextmanager
def ccube_pool(pool):
    """ccube hard-codes multiprocessing.pool.ThreadPool; substitute it for the duration of a call"""
    orig = multiprocessing.pool.ThreadPool
    multiprocessing.pool.ThreadPool = pool
    try:
        yield
    finally:
        multiprocessing.pool.ThreadPool = orig


def run_with_timeout(fn, timeout):
    """run fn() in a daemon thread; returns ('ok', value) | ('raise', exc) | ('timeout', None)"""
    box = {}

    def target():
        try:
            box["v"] = ("ok", fn())
        except BaseException as e:
            box["v"] = ("raise", e)

    t = threading.Thread(target=target, daemon=True)
    t.start()
    t.join(timeout)
    if t.is_alive():
        return ("timeout", None)
    return box["v"]


@contextlib.contextmanager
def switch_interval(x):
    old = sys.getswitchinterval()
    sys.setswitchinterval(x)
    try:
        yield
    finally:
        sys.setswitchinterval(old)
