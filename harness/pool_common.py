"""Pools and schedulers for C16/C20: a permuting pool, a deterministic seeded scheduler that interleaves worker
tasks at source-line granularity (one thread runs at a time, the next one is drawn from a seeded PRNG at every
traced line of catii code), and helpers to run the real ThreadPool under a microsecond switch interval and a
hard timeout."""
import contextlib
import multiprocessing.pool
import random
import sys
import threading


class PermutedPool:
    """`pool.map` semantics with the tasks executed one after another in a seeded permutation"""

    def __init__(self, seed):
        self.seed = seed
        self.order = None

    def __call__(self, poolsize):
        return self

    def map(self, func, iterable):
        items = list(iterable)
        order = list(range(len(items)))
        random.Random(self.seed).shuffle(order)
        self.order = order
        results, first = [None] * len(items), None
        for i in order:
            try:
                results[i] = func(items[i])
            except Exception as e:       # map() runs every task and re-raises afterwards
                if first is None:
                    first = e
        if first is not None:
            raise first
        return results

    def close(self):
        pass


class SeededInterleavingPool:
    """Worker tasks run in real threads, but only the thread holding the baton executes; at every traced line of
    catii code the baton moves to a thread drawn from a seeded PRNG. The interleaving is therefore a deterministic
    function of the seed, at source-line (bytecode-run) granularity."""

    def __init__(self, seed, switch_prob=0.35):
        self.seed = seed
        self.p = switch_prob
        self.switches = 0

    def __call__(self, poolsize):
        self.poolsize = poolsize
        return self

    def close(self):
        pass

    def map(self, func, iterable):
        items = list(iterable)
        n = len(items)
        if n == 0:
            return []
        rng = random.Random(self.seed)
        cond = threading.Condition()
        state = {"current": None, "alive": set(range(n))}
        results, errors = [None] * n, [None] * n
        state["current"] = rng.choice(sorted(state["alive"]))

        def wait_turn(i):
            with cond:
                while state["current"] != i:
                    cond.wait()

        def maybe_switch(i):
            with cond:
                if len(state["alive"]) > 1 and rng.random() < self.p:
                    state["current"] = rng.choice(sorted(state["alive"]))
                    self.switches += 1
                    cond.notify_all()
                while state["current"] != i:
                    cond.wait()

        def worker(i):
            wait_turn(i)

            def tracer(frame, event, arg):
                if "catii" not in frame.f_code.co_filename:
                    return None
                if event == "line":
                    maybe_switch(i)
                return tracer

            sys.settrace(tracer)
            try:
                results[i] = func(items[i])
            except BaseException as e:
                errors[i] = e
            finally:
                sys.settrace(None)
                with cond:
                    state["alive"].discard(i)
                    if state["alive"]:
                        state["current"] = rng.choice(sorted(state["alive"]))
                    cond.notify_all()

        threads = [threading.Thread(target=worker, args=(i,), daemon=True) for i in range(n)]
        for t in threads:
            t.start()
        for t in threads:
            t.join(60)
            if t.is_alive():
                raise TimeoutError("seeded scheduler: worker did not finish")
        for e in errors:
            if e is not None:
                raise e
        return results


@contextlib.contextmanager
def ccube_pool(pool):
    """ccube hard-codes multiprocessing.pool.ThreadPool; substitute it for the duration of a call"""
    orig = multiprocessing.pool.ThreadPool
    multiprocessing.pool.ThreadPool = pool
    try:
        yield
    finally:
        multiprocessing.pool.ThreadPool = orig


def run_with_timeout(fn, timeout):
    """run fn() in a daemon thread; returns ('ok', value) | ('raise', exc) | ('timeout', None)"""
    box = {}

    def target():
        try:
            box["v"] = ("ok", fn())
        except BaseException as e:
            box["v"] = ("raise", e)

    t = threading.Thread(target=target, daemon=True)
    t.start()
    t.join(timeout)
    if t.is_alive():
        return ("timeout", None)
    return box["v"]


@contextlib.contextmanager
def switch_interval(x):
    old = sys.getswitchinterval()
    sys.setswitchinterval(x)
    try:
        yield
    finally:
        sys.setswitchinterval(old)
