"""History engine for C06 / C07 / C15: random (and exhaustive small) operation histories on real iindex objects,
checked after EVERY step against (a) the NumPy reference semantics on the dense array (oracle, C06), (b) the
well-formedness conditions (oracle, C07), (c) the most-frequent-common rule after library-chosen normalisations
(oracle, C15), and (d) the Lean model applied to the same pre-state (correspondence)."""
import copy as _copy

import numpy as np

import idx_common as I

LIB_CHOOSES_COMMON = {"shift_common", "append", "filtered", "collapsed"}


class Step:
    __slots__ = ("op", "args", "pre", "post", "err", "req", "expect_dense", "fails", "extra")

    def __init__(self):
        self.fails = []      # (prop, cls, what)
        self.args = None
        self.expect_dense = None
        self.pre = None
        self.op = None
        self.extra = None
        self.req = None
        self.err = None
        self.post = None


def gen_op(rng, ix, a, allow):
    nd = len(ix.shape)
    cands = ["copy", "shift_common", "shift_common_v", "queries"]
    if nd <= 2:
        cands += ["append", "update", "filtered", "reindexed", "union_update", "intersection_update",
                  "difference_update", "column_stack"]
    if nd >= 2:
        cands += ["sliced", "slices1d"]
    if nd == 2:
        cands += ["collapsed"]
    if nd == 3:
        cands = ["copy", "sliced", "slices1d", "sliced", "slices1d"]
    if any(e == 0 for e in ix.shape[1:]):   # degenerate zero-extent axes: argument generators have nothing to draw
        cands = ["copy", "shift_common"] + (["collapsed"] if nd == 2 else [])
    cands = [c for c in cands if allow is None or c in allow]
    return rng.choice(cands) if cands else None


def apply_step(rng, ix, a, op):
    """returns (Step, new_ix, new_a). ix is mutated for in-place ops, as the library does."""
    from catii import iindex
    from catii.iindexes import column_stack
    st = Step()
    st.op = op
    st.pre = I.to_json(ix)
    pre_snapshot = I.snapshot(ix)
    nd = len(ix.shape)
    N = ix.shape[0]
    new_ix, new_a = ix, a
    operands = []          # (name, object, snapshot) that must stay unchanged
    must_not_share = []    # results that were requested as copies
    try:
        if op == "copy":
            st.args = {}
            new_ix = ix.copy()
            st.expect_dense = a
            must_not_share.append((new_ix, ix))
            operands.append(("receiver", ix, pre_snapshot))
            st.req = {"op": "iidx", "m": "copy", "self": st.pre}
        elif op == "shift_common":
            st.args = {}
            ix.shift_common()
            st.expect_dense = a
            st.req = {"op": "iidx", "m": "shift_common", "self": st.pre}
        elif op == "shift_common_v":
            present = sorted(set(a.reshape(-1).tolist()))
            v = rng.choice(present + [rng.randrange(0, 9)]) if present else rng.randrange(0, 9)
            st.args = {"new": int(v)}
            ix.shift_common(int(v))
            st.expect_dense = a
            st.req = {"op": "iidx", "m": "shift_common", "self": st.pre, "new": int(v)}
        elif op == "append":
            other, b = I.gen_index(rng, ndim=nd, N=rng.choice([0, 0, 1, 2, 4]),
                                   vals=sorted(set(a.reshape(-1).tolist()) | {0, 1, rng.randrange(0, 8)}))
            if nd == 2:   # same number of columns
                other, b = _with_cols(rng, other, b, ix.shape[1])
            st.args = {"other": I.to_json(other)}
            operands.append(("other", other, I.snapshot(other)))
            ix.append(other)
            must_not_share.append((ix, other))
            st.expect_dense = np.concatenate([a, b.reshape((b.shape[0],) + a.shape[1:])])
            new_a = st.expect_dense
            st.req = {"op": "iidx", "m": "append", "self": st.pre, "other": st.args["other"]}
        elif op == "update":
            ent = I.gen_update_entries(rng, ix, a)
            jent = [[[int(c) for c in k], [int(x) for x in v.tolist()]] for k, v in ent.items()]
            st.args = {"entries": jent}
            snap = [(k, v.tobytes()) for k, v in ent.items()]
            ix.update(ent)
            if snap != [(k, v.tobytes()) for k, v in ent.items()]:
                st.fails.append(("C06", "C06-operand-changed", "update() changed its entries argument"))
            st.expect_dense = I.np_update(a, ent)
            new_a = st.expect_dense
            st.req = {"op": "iidx", "m": "update", "self": st.pre, "entries": jent}
        elif op == "filtered":
            keep = rng.choice([0.6, 0.6, 0.6, 1.0, 0.0, 0.9])     # incl. masks that keep every row / no row
            mask = np.array([rng.random() < keep for _ in range(N)], dtype=bool)
            st.args = {"mask": [bool(x) for x in mask.tolist()], "new_length": int(mask.sum())}
            mb = mask.tobytes()
            new_ix = ix.filtered(mask, int(mask.sum()))
            if mask.tobytes() != mb:
                st.fails.append(("C06", "C06-operand-changed", "filtered() changed its mask"))
            operands.append(("receiver", ix, pre_snapshot))
            must_not_share.append((new_ix, ix))     # a[mask] is always a fresh array
            st.expect_dense = a[mask]
            new_a = st.expect_dense
            st.req = {"op": "iidx", "m": "filtered", "self": st.pre, **st.args}
        elif op == "sliced":
            orders = I.gen_orders(rng, ix)
            st.args = {"orders": orders}
            oc = _copy.deepcopy(orders)
            new_ix = ix.sliced(*orders)
            if oc != orders:
                st.fails.append(("C06", "C06-operand-changed", "sliced() changed its order lists"))
            operands.append(("receiver", ix, pre_snapshot))
            st.expect_dense = I.np_sliced(a, orders)
            new_a = st.expect_dense
            st.req = {"op": "iidx", "m": "sliced", "self": st.pre, "orders": orders}
        elif op == "slices1d":
            st.args = {}
            got = list(ix.slices1d())
            operands.append(("receiver", ix, pre_snapshot))
            labels = [tuple(int(c) for c in co) for co, _ in got]
            import itertools
            want = list(itertools.product(*[range(s) for s in ix.shape[1:]]))
            if sorted(labels) != sorted(want):
                st.fails.append(("C06", "C06-slices1d-labels", "slices1d yielded labels %s, expected each of %s once" % (
                    labels[:6], want[:6])))
            for co, sl in got:
                col = a[(slice(None),) + tuple(co)] if co else a
                if tuple(sl.shape) != (N,) or not np.array_equal(I.dense_of(sl), col):
                    st.fails.append(("C06", "C06-slices1d-content", "slice labelled %s is not that column" % (co,)))
                    break
            st.extra = [[list(map(int, co)), I.canon(I.to_json(sl))] for co, sl in got]
            st.expect_dense = a
            st.req = {"op": "iidx", "m": "slices1d", "self": st.pre}
        elif op == "reindexed":
            # in a well-formed index no row is listed twice under one column, so merged row ids never repeat and the
            # caller may always promise `assume_unique=True`
            au = rng.random() < 0.35
            mapping, kind = I.gen_mapping(rng, ix, a, prefer_merge=au)
            copy_flag = rng.random() < 0.7
            st.args = {"mapping": None if mapping is None else [[int(k), int(v)] for k, v in mapping.items()],
                       "kind": kind, "copy": copy_flag, "assume_unique": au}
            mc = None if mapping is None else dict(mapping)
            new_ix = ix.reindexed(mapping, copy=copy_flag, assume_unique=True) if au else ix.reindexed(mapping, copy=copy_flag)
            if mc != mapping:
                st.fails.append(("C06", "C06-operand-changed", "reindexed() changed its mapping"))
            operands.append(("receiver", ix, pre_snapshot))
            if copy_flag:
                must_not_share.append((new_ix, ix))
            st.expect_dense = I.np_reindexed(a, mapping, ix.common)
            new_a = st.expect_dense
            st.req = {"op": "iidx", "m": "reindexed", "self": st.pre, "mapping": st.args["mapping"], "assume_unique": au}
        elif op == "collapsed":
            present = sorted(set(a.reshape(-1).tolist()) | {int(ix.common)})
            pool = present + [-1, 9]
            prec = rng.sample(pool, rng.randrange(1, len(pool) + 1))
            if rng.random() < 0.3:
                prec = [p for p in prec if p >= 0] or [0]
            if rng.random() < 0.35:
                # "any precedence list": values listed more than once (the common value and the last one included)
                for _ in range(rng.randrange(1, 4)):
                    prec.insert(rng.randrange(0, len(prec) + 1), rng.choice(prec + [int(ix.common)]))
            mapping = None
            if rng.random() < 0.3:
                keys = rng.sample(present, rng.randrange(0, len(present) + 1))
                mapping = {int(k): int(rng.choice(pool + [int(ix.common)])) for k in keys}
            st.args = {"precedence": [int(p) for p in prec],
                       "mapping": None if mapping is None else [[k, v] for k, v in mapping.items()]}
            pc, mc = list(prec), None if mapping is None else dict(mapping)
            new_ix = ix.collapsed(prec) if mapping is None else ix.collapsed(prec, mapping)
            if pc != prec or mc != mapping:
                st.fails.append(("C06", "C06-operand-changed", "collapsed() changed its precedence list or mapping"))
            operands.append(("receiver", ix, pre_snapshot))
            must_not_share.append((new_ix, ix))
            st.expect_dense = I.np_collapsed(a, prec, mapping)
            new_a = st.expect_dense
            st.req = {"op": "iidx", "m": "collapsed", "self": st.pre, "precedence": st.args["precedence"]}
            if mapping is not None:
                st.req["mapping"] = st.args["mapping"]
        elif op == "column_stack":
            others = []
            for _ in range(rng.randrange(0, 3)):
                o, b = I.gen_index(rng, ndim=rng.choice([1, 2]), N=N,
                                   vals=sorted(set(a.reshape(-1).tolist()) | {0, 1, rng.randrange(0, 8)}))
                others.append((o, b))
            pos = rng.randrange(0, len(others) + 1)
            seq = others[:pos] + [(ix, a)] + others[pos:]
            nc = rng.choice([None, None, int(ix.common), rng.randrange(0, 8)])
            cp = rng.random() < 0.5
            st.args = {"indexes": [I.to_json(o) for o, _ in seq], "new_common": nc, "copy": cp}
            for o, _ in seq:
                operands.append(("input", o, I.snapshot(o)))
            new_ix = column_stack([o for o, _ in seq], new_common=nc, copy=cp)
            if cp:
                for o, _ in seq:
                    must_not_share.append((new_ix, o))
            st.expect_dense = np.column_stack([b for _, b in seq]) if N or True else None
            new_a = st.expect_dense
            st.req = {"op": "iidx", "m": "column_stack", "indexes": st.args["indexes"], "new_common": nc}
        elif op in ("union_update", "intersection_update", "difference_update"):
            ent = _gen_setop_entries(rng, ix, a, op)
            jent = [[[int(c) for c in k], [int(x) for x in v.tolist()]] for k, v in ent.items()]
            st.args = {"entries": jent}
            snap = [(k, v.tobytes()) for k, v in ent.items()]
            before = {k: set(np.asarray(v).tolist()) for k, v in dict.items(ix)}
            getattr(ix, op)(ent)
            if snap != [(k, v.tobytes()) for k, v in ent.items()]:
                st.fails.append(("C06", "C06-operand-changed", "%s changed its argument" % op))
            after = {k: set(np.asarray(v).tolist()) for k, v in dict.items(ix)}
            want = {}
            o = {k: set(v.tolist()) for k, v in ent.items()}
            if op == "union_update":
                for k in set(before) | set(o):
                    want[k] = before.get(k, set()) | o.get(k, set())
            elif op == "intersection_update":
                for k in set(before) & set(o):
                    want[k] = before[k] & o[k]
            else:
                for k in before:
                    want[k] = before[k] - o.get(k, set())
            want = {k: v for k, v in want.items() if v}
            if after != want:
                st.fails.append(("C06", "C06-setop", "%s: entries are not the entry-wise set algebra" % op))
            new_a = I.dense_of(ix)
            st.expect_dense = new_a
            st.req = {"op": "iidx", "m": op, "self": st.pre, "entries": jent}
        elif op == "queries":
            st.args = {}
            operands.append(("receiver", ix, pre_snapshot))
            st.expect_dense = a
            if nd <= 2:
                vals = sorted(set(a.reshape(-1).tolist()) | {int(ix.common)})
                cols = [()] if nd == 1 else [(c,) for c in range(ix.shape[1])]
                tod = ix.to_dict(force=True)
                items = {k: v.tolist() for k, v in ix.items(force=True)}
                for v in vals:
                    for c in cols:
                        col = a if nd == 1 else a[:, c[0]]
                        want = np.nonzero(col == v)[0].tolist()
                        got = ix.get((int(v),) + c, None, force=True)
                        got = [] if got is None else got.tolist()
                        if got != want:
                            st.fails.append(("C06", "C06-query", "get(%s, force=True) = %s, rows with that value: %s" % (
                                (v,) + c, got[:8], want[:8])))
                        for name, d in (("to_dict", tod), ("items", items)):
                            g = d.get((int(v),) + c, [])
                            if list(g) != want:
                                st.fails.append(("C06", "C06-query", "%s(force=True)[%s] = %s, expected %s" % (
                                    name, (v,) + c, list(g)[:8], want[:8])))
                for c in cols:
                    col = a if nd == 1 else a[:, c[0]]
                    want = np.nonzero(col == ix.common)[0].tolist()
                    got = ix.common_rowids(*c).tolist()
                    if got != want:
                        st.fails.append(("C06", "C06-query", "common_rowids%s = %s, expected %s" % (c, got[:8], want[:8])))
            st.req = None
    except Exception as e:  # an operation raising on a well-formed input within the quantifier
        import traceback
        st.err = "%s: %s" % (type(e).__name__, str(e)[:150])
        st.fails.append(("C06", "C06-raises", "%s raised %s" % (op, st.err)))
        return st, ix, a
    # ---- after the step -------------------------------------------------------------------
    for name, obj, snap in operands:
        if I.snapshot(obj) != snap:
            st.fails.append(("C06", "C06-operand-changed", "%s left its %s changed" % (op, name)))
            # an operand is an index the caller still holds: it is reachable, so it must still be well-formed (C07)
            if hasattr(obj, "common") and hasattr(obj, "shape"):
                for p in I.wf_problems(obj):
                    st.fails.append(("C07", "C07-" + _wf_class(p), "after %s, its %s (still held by the caller): %s" % (op, name, p)))
    for res, src in must_not_share:
        if res is src:
            st.fails.append(("C06", "C06-shares-storage", "%s returned its source object instead of a new index: a later "
                             "in-place operation on either changes the other" % op))
        elif I.shares_storage(res, src):
            st.fails.append(("C06", "C06-shares-storage", "%s result shares row-id storage with its source" % op))
    st.post = I.to_json(new_ix)
    try:
        got = I.dense_of(new_ix)
    except Exception as e:    # entries that do not fit the declared shape: no dense array to speak of
        st.fails.append(("C06", "C06-dense", "%s: the result (shape %s) does not stand for a dense array of that shape: %s: %s" % (
            op, tuple(new_ix.shape), type(e).__name__, str(e)[:80])))
        for p in I.wf_problems(new_ix):
            st.fails.append(("C07", "C07-" + _wf_class(p), "after %s: %s" % (op, p)))
        st.err = "ill-formed result"
        return st, ix, a
    if st.expect_dense is not None and op not in ("slices1d", "queries"):
        exp = np.asarray(st.expect_dense)
        if got.shape != exp.shape or not np.array_equal(got, exp):
            st.fails.append(("C06", "C06-dense", "%s: dense content %s (shape %s) but NumPy gives %s (shape %s)" % (
                op, got.reshape(-1).tolist()[:12], got.shape, exp.reshape(-1).tolist()[:12], exp.shape)))
        elif len(new_ix.shape) <= 2:
            try:
                ta = new_ix.to_array(dtype=int)
                if not np.array_equal(ta, exp):
                    st.fails.append(("C06", "C06-dense", "%s: to_array(dtype=int) differs from NumPy" % op))
            except Exception as e:
                st.fails.append(("C06", "C06-raises", "to_array after %s raised %s" % (op, type(e).__name__)))
    for p in I.wf_problems(new_ix):
        st.fails.append(("C07", "C07-" + _wf_class(p), "after %s: %s" % (op, p)))
    if not any(f[0] == "C07" for f in st.fails) and len(new_ix.shape) >= 1:
        for p in I.derived_ok(new_ix):
            st.fails.append(("C07", "C07-derived", "after %s: %s" % (op, p)))
    if op in LIB_CHOOSES_COMMON and got.size:
        vals, cnts = np.unique(got.reshape(-1), return_counts=True)
        cc = int(np.count_nonzero(got == new_ix.common))
        if cc != int(cnts.max()):
            st.fails.append(("C15", "C15-common-not-most-frequent",
                             "after %s the common value %s occurs %d times but %s occurs %d times" % (
                                 op, new_ix.common, cc, int(vals[int(np.argmax(cnts))]), int(cnts.max()))))
    return st, new_ix, (new_a if new_a is not None else a)


def _wf_class(p):
    if "empty" in p:
        return "empty-entry"
    if "common value" in p:
        return "entry-under-common"
    if "not sorted" in p or "not unique" in p:
        return "unsorted"
    if "same rowids" in p:
        return "not-exclusive"
    return "other"


def _with_cols(rng, other, b, ncols):
    import gen_cube as G
    N = b.shape[0]
    vals = sorted(set(b.reshape(-1).tolist()) | {0, 1})
    bb = np.array(rng.choices(vals, k=N * ncols), dtype=np.int64).reshape(N, ncols)
    return G.make_index(bb, int(other.common)), bb


def _gen_setop_entries(rng, ix, a, op):
    """arguments for the entry-wise set updates that keep the index well-formed (union only adds rows that are
    currently common in that column; intersection/difference take arbitrary row subsets)"""
    nd = len(ix.shape)
    N = ix.shape[0]
    ent = {}
    keys = list(dict.keys(ix))
    if op == "union_update":
        cols = [()] if nd == 1 else [(c,) for c in range(ix.shape[1])]
        for c in cols:
            col = a if nd == 1 else a[:, c[0]]
            free = np.nonzero(col == ix.common)[0].tolist()
            rng.shuffle(free)
            vals = sorted((set(a.reshape(-1).tolist()) | {rng.randrange(0, 8)}) - {int(ix.common)})
            for v in vals:
                if free and rng.random() < 0.4:
                    take = [free.pop() for _ in range(min(len(free), rng.randrange(1, 3)))]
                    ent[(int(v),) + c] = np.array(sorted(take), dtype=np.uint32)
                elif rng.random() < 0.15:       # a category that received no rows in this batch
                    ent[(int(v),) + c] = np.array([], dtype=np.uint32)
    else:
        for k in keys:
            if rng.random() < 0.6:
                rows = [r for r in range(N) if rng.random() < 0.5]
                if rows or rng.random() < 0.3:
                    ent[k] = np.array(rows, dtype=np.uint32)
        if rng.random() < 0.3:
            ent[(rng.randrange(0, 9),) + tuple(0 for _ in ix.shape[1:])] = np.array(
                [r for r in range(N) if rng.random() < 0.5], dtype=np.uint32)
    return ent


def run_history(rng, length, ndim=None, allow=None):
    """one random history; returns list of Steps"""
    ix, a = I.gen_index(rng, ndim=ndim)
    steps = []
    for _ in range(length):
        op = gen_op(rng, ix, a, allow)
        if op is None:
            break
        st, ix, a = apply_step(rng, ix, a, op)
        steps.append(st)
        if st.err:
            break
        # between two operations a caller may READ the live index (forced queries compute the common rows): reads must not
        # influence what later operations do
        if rng.random() < 0.5 and 1 <= len(ix.shape) <= 2 and all(e > 0 for e in ix.shape[1:]):
            try:
                if len(ix.shape) == 1:
                    ix.common_rowids()
                    ix.get((ix.common,), force=True)
                else:
                    for c in range(ix.shape[1]):
                        ix.common_rowids(c)
                        ix.get((ix.common, c), force=True)
                list(ix.items(force=True))
                ix.to_dict(force=True)
            except Exception:
                pass
    return steps


# ---------------------------------------------------------------------------------------------
# driver shared by C06 / C07 / C15
# ---------------------------------------------------------------------------------------------
def enumerate_bases():
    """all dense arrays with <=3 rows and <=2 columns over {0,1,2}, every common in {0,1,2,3}"""
    import itertools
    import gen_cube as G
    for N in range(0, 4):
        for shape in ((N,), (N, 1), (N, 2)):
            n = int(np.prod(shape))
            if n > 4:
                continue
            for data in itertools.product(range(3), repeat=n):
                a = np.array(data, dtype=np.int64).reshape(shape)
                for c in range(4):
                    yield G.make_index(a, c), a
    for N in range(1, 4):        # rows without any column (what `sliced([])` leaves): every row holds no value at all
        a = np.zeros((N, 0), dtype=np.int64)
        for c in range(3):
            yield G.make_index(a, c), a


def drive(ctx, prop, check_model=True):
    import core
    core.load_catii()
    reqs, pend = [], []

    def record(steps):
        for st in steps:
            desc = {"op": st.op, "args": st.args, "pre": st.pre}
            small = desc if len(str(desc)) < 700 else {"op": st.op, "pre_shape": st.pre["shape"], "pre_common": st.pre["common"]}
            ctx.case(small, nontrivial=bool(st.pre["entries"]) or st.op in ("append", "update", "column_stack"))
            ctx.hit("op:" + st.op)
            if st.args and "kind" in st.args:
                ctx.hit("mapping:" + st.args["kind"])
            for (p, cls, what) in st.fails:
                if p == prop:
                    ctx.oracle_fail(what, desc, cls=cls)
            if st.req is not None and st.post is not None and check_model:
                reqs.append(st.req)
                pend.append(("op", st))
                if prop == "C07":
                    reqs.append({"op": "iidx", "m": "wf", "self": st.post})
                    pend.append(("wf", st))

    # exhaustive small level: every base index x every applicable operation once (seeded arguments)
    nb = 0
    for ix, a in enumerate_bases():
        nb += 1
        if ctx.scale == 1 and nb % 3 != ctx.seed % 3:
            continue
        ops = ["copy", "shift_common", "shift_common_v", "append", "update", "filtered", "reindexed",
               "union_update", "intersection_update", "difference_update", "column_stack", "queries"] + (
                   ["sliced", "slices1d", "collapsed"] if len(ix.shape) == 2 else [])
        if any(e == 0 for e in ix.shape[1:]):
            ops = ["copy", "shift_common", "collapsed", "collapsed", "collapsed"]
        for op in ops:
            ix2 = I.from_json(I.to_json(ix))
            st, nix, na = apply_step(ctx.rng, ix2, a.copy(), op)
            steps = [st]
            if not st.err and ctx.rng.random() < 0.25:   # a second operation on the result (pairs)
                op2 = gen_op(ctx.rng, nix, na, None)
                st2, _, _ = apply_step(ctx.rng, nix, na, op2)
                steps.append(st2)
                ctx.hit("pair")
            record(steps)
    ctx.exhaustive.append("every index with <=3 rows, <=2 columns over {0,1,2}, commons 0..3 x every operation once "
                          "(arguments seeded); a quarter followed by a second operation")
    for _ in range(ctx.n(120)):
        record(run_history(ctx.rng, ctx.rng.randrange(1, 13)))
    if ctx.oracle_only or not check_model:
        return
    ans = ctx.model.run(reqs)
    for (kind, st), m in zip(pend, ans):
        desc = {"op": st.op, "args": st.args, "pre": st.pre}
        if kind == "wf":
            real_ok = not any(f[0] == "C07" and f[1] != "C07-derived" for f in st.fails)
            if m.get("ok") != real_ok:
                ctx.corr_fail("well-formedness of the result: impl checks %s, model wf %s" % (real_ok, m), desc)
            continue
        if "err" in m:
            ctx.corr_fail("model error %s, impl returned" % m["err"], desc)
            continue
        if st.op == "slices1d":
            got = sorted([c, I.canon(j)] for c, j in m["ok"])
            if got != sorted(st.extra):
                ctx.corr_fail("slices1d differs: impl %s model %s" % (str(sorted(st.extra))[:200], str(got)[:200]), desc)
            continue
        mj, rj = I.canon(m["ok"]), I.canon(st.post)
        if mj != rj:
            if st.op == "column_stack" and st.args.get("new_common") is None and mj["common"] != rj["common"] \
                    and mj["shape"] == rj["shape"]:
                ctx.hit("column_stack_common_tie_differs")   # float vs exact sparsity sums; not part of any property
                continue
            ctx.corr_fail("result differs: impl %s model %s" % (str(rj)[:250], str(mj)[:250]), desc)
