"""Generators for sorted uint32 arrays (C08/C09)."""
import itertools

U32 = 2**32 - 1


def subsets(universe):
    for k in range(len(universe) + 1):
        for c in itertools.combinations(universe, k):
            yield list(c)


def universe(n):
    base = [0, 1, 2, 5, U32 - 1, U32, 7, 1000]
    return sorted(base[:n])


def random_sorted(rng, n, lo=0, hi=U32):
    if n == 0:
        return []
    span = hi - lo + 1
    if n > span:
        n = span
    if span < 4 * n:
        xs = rng.sample(range(lo, hi + 1), n)
    else:
        s = set()
        while len(s) < n:
            s.add(rng.randrange(lo, hi + 1))
        xs = list(s)
    return sorted(xs)


def random_pair(rng, maxlen=200):
    """pairs with controlled overlap patterns"""
    kind = rng.choice(["disjoint_lo", "disjoint_hi", "touch", "nested", "interleaved", "identical",
                       "random", "one_empty", "single", "edge_values", "skewed", "skewed"])
    n = rng.randrange(0, maxlen)
    m = rng.randrange(0, maxlen)
    if kind == "disjoint_lo":
        a = random_sorted(rng, n, 0, 10**6)
        b = random_sorted(rng, m, 10**6 + 1, 2 * 10**6)
    elif kind == "disjoint_hi":
        b = random_sorted(rng, n, 0, 10**6)
        a = random_sorted(rng, m, 10**6 + 1, 2 * 10**6)
    elif kind == "touch":
        a = random_sorted(rng, n, 0, 10**6) + [10**6 + 1]
        b = [10**6 + 1] + random_sorted(rng, m, 10**6 + 2, 2 * 10**6)
        if rng.random() < 0.5:
            a, b = b, a
    elif kind == "nested":
        a = random_sorted(rng, n + 2, 0, 10**6)
        b = sorted(rng.sample(a, rng.randrange(0, len(a) + 1)))
        if rng.random() < 0.5:
            a, b = b, a
    elif kind == "interleaved":
        base = random_sorted(rng, n + m, 0, 4 * (n + m) + 4)
        a = [x for x in base if rng.random() < 0.6]
        b = [x for x in base if rng.random() < 0.6]
    elif kind == "identical":
        a = random_sorted(rng, n, 0, U32)
        b = list(a)
    elif kind == "one_empty":
        a, b = random_sorted(rng, n, 0, U32), []
        if rng.random() < 0.5:
            a, b = b, a
    elif kind == "single":
        a = random_sorted(rng, n, 0, 50)
        b = [rng.randrange(0, 52)]
        if rng.random() < 0.5:
            a, b = b, a
    elif kind == "skewed":
        # one operand tiny, the other 65..5000 times longer, ranges overlapping; the tiny one reaches below / inside /
        # above the long one in every combination (galloping or bisecting shortcuts live here)
        m = rng.choice([65, 66, 130, 300, 1000, 5000])
        lo = rng.choice([0, 10, 10**6])
        b = random_sorted(rng, m, lo + 5, lo + 5 + rng.choice([2, 4, 50]) * m)
        n = rng.randrange(1, 5)
        pool = [lo, lo + 1, b[0], b[-1], b[-1] + 1, b[-1] + 7, b[len(b) // 2], b[1], b[-2]] + rng.sample(b, 3) + \
               [rng.randrange(b[0], b[-1] + 1) for _ in range(3)]
        a = sorted(set(rng.sample(pool, n)))
        if rng.random() < 0.5:
            a, b = b, a
    elif kind == "edge_values":
        pool = [0, 1, U32 - 1, U32, 2**31, 2**31 - 1, 2**16, 255, 256]
        a = sorted(set(rng.sample(pool, rng.randrange(0, len(pool)))))
        b = sorted(set(rng.sample(pool, rng.randrange(0, len(pool)))))
    else:
        a = random_sorted(rng, n, 0, 3 * maxlen)
        b = random_sorted(rng, m, 0, 3 * maxlen)
    return kind, a, b
