"""Shared iindex machinery for C01/C05/C06/C07/C15/C17: JSON conversion, the dense abstraction (harness-side,
independent of to_array), NumPy reference semantics of every operation, generators of well-formed indexes and
operation arguments, and the extra well-formedness conditions validate(True) does not check."""
import itertools

import numpy as np

U32 = 2**32 - 1


def to_json(ix):
    return {"shape": [int(s) for s in ix.shape], "common": int(ix.common),
            "entries": [[[int(c) for c in k], [int(x) for x in np.asarray(v).tolist()]] for k, v in dict.items(ix)]}


def canon(j):
    """order-insensitive view of an index JSON"""
    return {"shape": list(j["shape"]), "common": j["common"], "entries": sorted([list(k), list(r)] for k, r in j["entries"])}


def from_json(j):
    from catii import iindex
    return iindex({tuple(k): np.array(r, dtype=np.uint32) for k, r in j["entries"]}, j["common"], tuple(j["shape"]))


def dense_of(ix):
    """the dense array an index stands for — harness-side abstraction function (any number of axes)"""
    a = np.full(tuple(ix.shape), int(ix.common), dtype=np.int64)
    for k, rows in dict.items(ix):
        rows = np.asarray(rows, dtype=np.int64)
        if len(k) == 1:
            a[rows] = k[0]
        else:
            a[(rows,) + tuple(int(c) for c in k[1:])] = k[0]
    return a


def wf_problems(ix):
    """validate(True) + the range / arity / non-emptiness / dtype conditions it does not check (C07)"""
    probs = []
    try:
        ix.validate(True)
    except Exception as e:
        probs.append("validate(True): %s" % str(e)[:100])
    nd = len(ix.shape)
    n = ix.shape[0] if nd else 0
    for k, rows in dict.items(ix):
        rows = np.asarray(rows)
        if rows.dtype != np.uint32:
            probs.append("entry %s dtype %s" % (k, rows.dtype))
        if len(k) != nd:
            probs.append("entry %s has arity %d in a %d-D index" % (k, len(k), nd))
        if len(rows) == 0:
            probs.append("entry %s is empty" % (k,))
        elif int(rows.max()) >= n:
            probs.append("entry %s lists row %d >= %d rows" % (k, int(rows.max()), n))
        for j, c in enumerate(k[1:], 1):
            if not (0 <= c < ix.shape[j]):
                probs.append("entry %s coordinate %d outside shape %s" % (k, c, ix.shape))
        if any(type(c) is not int for c in k):
            probs.append("entry %s has non-int coordinates" % (k,))
    return probs


def derived_ok(ix):
    """consequences named by C07: abscissae / sparsity never include a category that occurs nowhere"""
    a = dense_of(ix)
    probs = []
    if set(int(v) for v in np.unique(a).tolist()) != set(int(v) for v in ix.abscissae):
        probs.append("abscissae %s != values occurring %s" % (sorted(ix.abscissae), sorted(set(np.unique(a).tolist()))))
    if a.size:
        sp = 100.0 * float(np.count_nonzero(a == ix.common)) / a.size
        if abs(sp - ix.sparsity) > 1e-9:
            probs.append("sparsity %s != %s" % (ix.sparsity, sp))
    return probs


# ---------------------------------------------------------------------------------------------
# generators
# ---------------------------------------------------------------------------------------------
def gen_index(rng, ndim=None, N=None, vals=None, common_mode=None):
    """a well-formed index built directly from a random dense array"""
    import gen_cube as G
    if ndim is None:
        ndim = rng.choice([1, 1, 2, 2, 3])
    if N is None:
        N = rng.choice([0, 1, 2, 3, 4, 6, 9])
    hi = tuple(rng.randrange(1, 4) for _ in range(ndim - 1))
    if vals is None:
        vals = rng.choice([[0, 1], [0, 1, 2], [0, 1, 2, 5], [3, 7], [0, 1, 2, 3, 4, 5, 6]])
    w = [rng.choice([0.2, 1.0, 3.0]) for _ in vals]
    n = int(np.prod((N,) + hi))
    a = np.array(rng.choices(vals, weights=w, k=n), dtype=np.int64).reshape((N,) + hi)
    mode = common_mode or rng.choice(["frequent", "rare", "absent", "any"])
    present = sorted(set(a.reshape(-1).tolist()))
    if mode == "frequent" and present:
        cnt = {v: int(np.count_nonzero(a == v)) for v in present}
        c = max(present, key=lambda v: (cnt[v], v))
    elif mode == "rare" and present:
        cnt = {v: int(np.count_nonzero(a == v)) for v in present}
        c = min(present, key=lambda v: (cnt[v], v))
    elif mode == "absent":
        c = rng.choice([v for v in range(0, 9) if v not in present] or [9])
    else:
        c = rng.choice(vals)
    return G.make_index(a, c), a


def gen_update_entries(rng, ix, a):
    """random cell assignments as an entries dict (may set cells to the common value)"""
    nd = len(ix.shape)
    N = ix.shape[0]
    if N == 0:
        return {}
    vals = sorted(set(a.reshape(-1).tolist()) | {int(ix.common), rng.randrange(0, 8)})
    cells = {}
    for _ in range(rng.randrange(0, 6)):
        r = rng.randrange(N)
        hi = tuple(rng.randrange(s) for s in ix.shape[1:])
        cells[(r,) + hi] = rng.choice(vals)
    ent = {}
    for cell, v in cells.items():
        ent.setdefault((int(v),) + cell[1:], []).append(cell[0])
    out = {k: np.array(sorted(v), dtype=np.uint32) for k, v in ent.items()}
    # per-category batch code passes EMPTY row-id arrays for categories that received no rows: under a value the
    # index does not hold yet, under one it holds, under the common value
    for _ in range(rng.choice([0, 0, 1, 2])):
        v = rng.choice(vals + [rng.randrange(8, 12)])
        key = (int(v),) + tuple(rng.randrange(s) for s in ix.shape[1:])
        if key not in out:
            out[key] = np.array([], dtype=np.uint32)
    return out


def gen_mapping(rng, ix, a, prefer_merge=False):
    present = sorted(set(a.reshape(-1).tolist()) | {int(ix.common)})
    kind = rng.choice(["default", "injective", "many_to_one", "onto_common", "partial", "move_common"])
    if prefer_merge and rng.random() < 0.7:
        # several listed values merged into one or two others: the merged row-id lists interleave
        tg = rng.sample(range(0, 9), 2)
        return {v: rng.choice(tg) for v in present}, "many_to_one"
    if kind == "default":
        return None, kind
    if kind == "injective":
        targets = rng.sample(range(0, 20), len(present))
        return dict(zip(present, targets)), kind
    if kind == "many_to_one":
        return {v: rng.choice([0, 1, 2]) for v in present}, kind
    if kind == "onto_common":
        m = {v: v for v in present}
        for v in present:
            if v != ix.common and rng.random() < 0.5:
                m[v] = int(ix.common)
        return m, kind
    if kind == "move_common":
        other = [v for v in present if v != ix.common]
        return ({int(ix.common): rng.choice(other)} if other else {int(ix.common): 4}), kind
    return {v: rng.randrange(0, 6) for v in present if rng.random() < 0.5}, kind


def gen_orders(rng, ix):
    orders = []
    for s in ix.shape[1:]:
        k = rng.choice(["none", "int", "list"])
        if k == "none":
            orders.append(None)
        elif k == "int":
            orders.append(rng.randrange(s))
        else:
            m = rng.randrange(0, s + 1)
            orders.append(rng.sample(range(s), m))
    return orders   # one per higher axis (the property's quantifier: 'int | order list | None per axis')


# ---------------------------------------------------------------------------------------------
# NumPy reference semantics (the oracle side of C06)
# ---------------------------------------------------------------------------------------------
def np_sliced(a, orders):
    res = a
    axis = 1
    for o in orders:
        if o is None:
            axis += 1
        elif isinstance(o, int):
            res = np.take(res, o, axis=axis)
        else:
            res = np.take(res, list(o), axis=axis) if len(o) else np.zeros(res.shape[:axis] + (0,) + res.shape[axis + 1:], dtype=res.dtype)
            axis += 1
    return res


def np_reindexed(a, mapping, common):
    if mapping is None:
        listed = sorted(set(a.reshape(-1).tolist()) - {int(common)})
        mapping = {v: i for i, v in enumerate(listed)}
    f = np.vectorize(lambda v: mapping.get(int(v), int(v)), otypes=[np.int64])
    return f(a) if a.size else a.copy()


def np_collapsed(a, precedence, mapping=None):
    out = np.empty(a.shape[0], dtype=np.int64)
    for r in range(a.shape[0]):
        row = set((mapping or {}).get(v, v) for v in a[r].reshape(-1).tolist())
        out[r] = next((p for p in precedence if p in row), precedence[-1])
    return out


def np_update(a, entries):
    b = a.copy()
    for k, rows in entries.items():
        rows = np.asarray(rows, dtype=np.int64)
        if len(k) == 1:
            b[rows] = k[0]
        else:
            b[(rows,) + tuple(k[1:])] = k[0]
    return b


def snapshot(ix):
    return (tuple(ix.shape), ix.common, [(k, np.asarray(v).tobytes(), str(np.asarray(v).dtype)) for k, v in dict.items(ix)])


def shares_storage(a, b):
    for _, va in dict.items(a):
        for _, vb in dict.items(b):
            if np.shares_memory(np.asarray(va), np.asarray(vb)):
                return True
    return False


def storage_variant(rng, a):
    """the same category values stored in another NumPy dtype that holds them exactly (a caller's array is rarely int64:
    bool for 0/1 indicators, uint8 codes, int32 ...); returns (array, dtype name)"""
    flat = a.reshape(-1)
    lo = int(flat.min()) if flat.size else 0
    hi = int(flat.max()) if flat.size else 0
    names = ["int64"]
    for nm in ("int8", "int16", "int32"):
        info = np.iinfo(nm)
        if info.min <= lo and hi <= info.max:
            names.append(nm)
    if lo >= 0:
        for nm in ("uint8", "uint16", "uint32", "uint64"):
            if hi <= np.iinfo(nm).max:
                names.append(nm)
        if hi <= 1:
            names += ["bool", "bool"]
    nm = rng.choice(names)
    return a.astype(nm), nm
